#!/bin/sh
# offline setup: nothing to build; syntax-check every spec and make sure TLC and the repo's python are usable
set -e
cd "$(dirname "$0")"
for f in spec/engine/*.tla spec/trace/*.tla; do
  ( cd "$(dirname "$f")" && d=$(mktemp -d) && cp /verif/spec/*/*.tla "$d"/ && cd "$d" && tla-sany "$(basename "$f")" >/dev/null 2>&1 || { echo "SANY failed: $f"; exit 1; }; rm -rf "$d" )
done
PYTHONPATH=/repo PYTHONDONTWRITEBYTECODE=1 /venv/bin/python -c "import autograd, numpy; print('autograd from', autograd.__file__)"
echo setup ok
