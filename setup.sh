#!/bin/sh
# offline setup: nothing to build; syntax-check every spec and make sure TLC and the repo's python are usable
set -e
cd "$(dirname "$0")"
root=$(pwd)
d=$(mktemp -d)
cp "$root"/spec/*/*.tla "$d"/
for f in spec/engine/*.tla spec/trace/*.tla spec/rules/*.tla spec/algebra/*.tla; do
  # (tla-sany exits 0 even when it reports errors: look at what it says)
  out=$(cd "$d" && tla-sany "$(basename "$f")" 2>&1) || true
  if echo "$out" | grep -q "Semantic errors\|Could not\|Parse Error\|Fatal errors\|\*\*\* Errors"; then
    echo "SANY failed: $f"; echo "$out" | tail -5; rm -rf "$d"; exit 1
  fi
done
rm -rf "$d"
PYTHONPATH=/repo PYTHONDONTWRITEBYTECODE=1 /venv/bin/python -c "import autograd, numpy; print('autograd from', autograd.__file__)"
# the SciPy wrappers are replayed under the tooling interpreter (the repository's own has no SciPy); without it that family skips itself
(cd /tmp && PYTHONPATH=/repo PYTHONDONTWRITEBYTECODE=1 /opt/veriftools/pyvenv/bin/python -c "import autograd.scipy.special, scipy; print('scipy', scipy.__version__, 'for the scipy family')") \
  || echo "note: no tooling interpreter with scipy - the scipy family of the rule-table checks will be skipped"
echo setup ok
