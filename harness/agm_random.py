"""Seeded random AGM programs (beyond the template families of AGMProgs.tla) and a Python screen that keeps only programs whose
denotation stays within TLC's 32-bit integers.  The programs are judged by TLC (spec/trace/TraceAGM.tla re-runs the abstract machine
and the denotational oracle on each of them); this module only *generates* and *screens*."""
import random

NV = 4
LIMIT = 2 ** 27


# ----------------------------------------------------------------------------- tiny exact polynomials (mirror of Poly.tla, for screening)
def padd(p, q):
    r = dict(p)
    for e, c in q.items():
        r[e] = r.get(e, 0) + c
        if r[e] == 0:
            del r[e]
    return r


def pmul(p, q):
    r = {}
    for e, c in p.items():
        for f, d in q.items():
            g = tuple(a + b for a, b in zip(e, f))
            r[g] = r.get(g, 0) + c * d
            if r[g] == 0:
                del r[g]
    return r


def pconst(c):
    return {(0,) * NV: c} if c else {}


def pvar(i):
    return {tuple(1 if j == i - 1 else 0 for j in range(NV)): 1}


def pderiv(p, i):
    r = {}
    for e, c in p.items():
        if e[i - 1] > 0:
            g = tuple(x - 1 if j == i - 1 else x for j, x in enumerate(e))
            r[g] = r.get(g, 0) + c * e[i - 1]
    return r


def psubst(p, i, q):
    r = {}
    for e, c in p.items():
        mono = {tuple(0 if j == i - 1 else x for j, x in enumerate(e)): c}
        for _ in range(e[i - 1]):
            mono = pmul(mono, q)
        r = padd(r, mono)
    return r


def peval(p, vals):
    t = 0
    for e, c in p.items():
        m = c
        for x, v in zip(e, vals):
            m *= v ** x
        t += m
    return t


def pmax(p):
    return max([abs(c) for c in p.values()] + [0])


class TooBig(Exception):
    pass


class Raised(Exception):
    pass


def den(prog):
    """Python mirror of AGMDen (without bombs / warnerr / user primitives): returns ("val", int) | ("exc",) ; raises TooBig"""
    bodies = prog["bodies"]

    def get(chain, ref):
        if ref["up"] == -1:
            return pconst(ref["r"])
        return chain[len(chain) - 1 - ref["up"]][ref["r"] - 1]

    def chk(p):
        if pmax(p) > LIMIT or len(p) > 60:
            raise TooBig()
        return p

    def run(b, chain, level, vals):
        regs = chain[-1]
        for ins in bodies[b - 1]:
            op = ins["op"]
            if op == "ret":
                return get(chain, ins["a"])
            if op == "raise":
                raise Raised()
            if op == "prim":
                a = [get(chain, r) for r in ins["a"]]
                p = ins["p"]
                if p == "add":
                    regs.append(chk(padd(a[0], a[1])))
                elif p == "mul":
                    regs.append(chk(pmul(a[0], a[1])))
                elif p == "neg":
                    regs.append(pmul(pconst(-1), a[0]))
                elif p == "take":
                    regs.append(a[0])
                elif p == "nd":
                    v = peval(a[0], vals)
                    if abs(v) > LIMIT:
                        raise TooBig()
                    regs.append(pconst(v))
                else:
                    raise TooBig()
            elif op in ("call", "try", "if"):
                if op == "if":
                    cv = peval(get(chain, ins["c"]), vals)
                    bb = ins["bt"] if cv > 0 else ins["bf"]
                else:
                    bb = ins["b"]
                try:
                    regs.append(run(bb, chain + [[]], level, vals))
                except Raised:
                    if op != "try":
                        raise
                    regs.append(pconst(-5))
            elif op == "diff":
                at, seed = get(chain, ins["at"]), get(chain, ins["seed"])
                L = level + 1
                if L > NV:
                    raise TooBig()
                av = peval(at, vals)
                if abs(av) > 50:
                    raise TooBig()
                v2 = list(vals)
                v2[L - 1] = av
                q = run(ins["b"], chain + [[pvar(L)]], L, v2)
                d = chk(pmul(chk(psubst(pderiv(q, L), L, at)), seed))
                regs.append(d)
            else:
                raise TooBig()
        raise TooBig()
    th = prog["threads"][0]
    try:
        r = run(th["main"], [[pconst(th["input"])]], 0, [0] * NV)
    except Raised:
        return ("exc",)
    if any(any(e) for e in r):
        raise TooBig()
    v = peval(r, [0] * NV)
    if abs(v) > LIMIT:
        raise TooBig()
    return ("val", v)


# ----------------------------------------------------------------------------- generator
def R(u, r):
    return {"up": u, "r": r}


def K(c):
    return {"up": -1, "r": c}


class Gen:
    def __init__(self, rng, max_depth=3, faults=True):
        self.rng = rng
        self.bodies = []
        self.max_depth = max_depth
        self.faults = faults

    def new_body(self):
        self.bodies.append(None)
        return len(self.bodies)

    def pick_ref(self, frames):
        """frames: list of register counts of the static chain, innermost last; returns a ref valid in the innermost frame"""
        rng = self.rng
        roll = rng.random()
        if roll < 0.12:
            return K(rng.choice([1, 2, 3]))
        up = 0
        while up + 1 < len(frames) and rng.random() < 0.35:
            up += 1
        n = frames[len(frames) - 1 - up]
        if n == 0:
            return K(2)
        # registers of enclosing frames: prefer the variable (register 1)
        r = 1 if (up > 0 and rng.random() < 0.6) else rng.randint(1, n)
        return R(up, r)

    def gen_body(self, frames, depth, in_try, budget):
        """emits a body whose frame already has frames[-1] registers; returns its index"""
        idx = self.new_body()
        rng = self.rng
        ins = []
        fr = list(frames)
        n_ops = rng.randint(1, 4)
        for _ in range(n_ops):
            if budget[0] <= 0:
                break
            budget[0] -= 1
            roll = rng.random()
            if roll < 0.5 or fr[-1] == 0:
                p = rng.choice(["mul", "mul", "add", "add", "neg", "nd", "take"])
                if fr[-1] == 0 and len(fr) == 1:
                    p = "add"
                a = [self.pick_ref(fr)] if p in ("neg", "nd", "take") else [self.pick_ref(fr), self.pick_ref(fr)]
                ins.append({"op": "prim", "p": p, "a": a})
            elif roll < 0.75 and depth < self.max_depth:
                at = self.pick_ref(fr) if rng.random() < 0.8 else K(rng.choice([2, 3]))
                b = self.gen_body(fr + [1], depth + 1, in_try, budget)
                ins.append({"op": "diff", "mode": rng.choice(["vjp", "jvp"]), "b": b, "at": at, "seed": K(1)})
            elif roll < 0.85:
                b = self.gen_body(fr + [0], depth, True, budget)
                ins.append({"op": "try", "b": b})
            elif roll < 0.93:
                c = self.pick_ref(fr)
                bt = self.gen_body(fr + [0], depth, in_try, budget)
                bf = self.gen_body(fr + [0], depth, in_try, budget)
                ins.append({"op": "if", "c": c, "bt": bt, "bf": bf})
            else:
                b = self.gen_body(fr + [0], depth, in_try, budget)
                ins.append({"op": "call", "b": b})
            fr[-1] += 1
        if in_try and self.faults and rng.random() < 0.25:
            ins.append({"op": "raise"})
        if fr[-1] == 0:
            ins.append({"op": "prim", "p": "add", "a": [self.pick_ref(fr[:-1] + [0]) if len(fr) > 1 else K(2), K(1)]})
            fr[-1] += 1
        # make the body's value involve its own variable (and often an enclosing one) so that the derivatives are not trivially zero
        if frames[-1] == 1 and rng.random() < 0.85:
            ins.append({"op": "prim", "p": rng.choice(["mul", "mul", "add"]), "a": [R(0, fr[-1]), R(0, 1)]})
            fr[-1] += 1
            if len(fr) > 2 and rng.random() < 0.5:
                up = rng.randint(1, len(fr) - 1)
                if fr[len(fr) - 1 - up] >= 1:
                    ins.append({"op": "prim", "p": "mul", "a": [R(0, fr[-1]), R(up, 1)]})
                    fr[-1] += 1
        ins.append({"op": "ret", "a": R(0, fr[-1]) if frames[-1] == 1 else R(0, rng.randint(max(1, fr[-1] - 1), fr[-1]))})
        self.bodies[idx - 1] = ins
        return idx


def generate(rng, max_depth=3, faults=True):
    g = Gen(rng, max_depth, faults)
    main = g.new_body()
    b = g.gen_body([1, 1], 1, False, [rng.randint(4, 10)])
    g.bodies[main - 1] = [{"op": "diff", "mode": rng.choice(["vjp", "jvp"]), "b": b, "at": R(0, 1), "seed": K(1)}, {"op": "ret", "a": R(0, 2)}]
    return {"bodies": g.bodies, "threads": [{"main": main, "input": rng.choice([2, 3])}], "warnerr": False, "utable": [], "uscale": 1}


def programs(seed, n, max_depth=3):
    """n screened random programs (denotation within range, non-trivial)"""
    rng = random.Random(seed * 7919 + 13)
    out, seen, tries = [], set(), 0
    while len(out) < n and tries < 60 * n:
        tries += 1
        prog = generate(rng, max_depth)
        try:
            d = den(prog)
        except TooBig:
            continue
        except (IndexError, KeyError):
            continue
        key = repr(prog["bodies"])
        if key in seen:
            continue
        seen.add(key)
        # keep mostly programs with a non-zero meaning, plus some zeros and some that raise
        if d == ("val", 0) and rng.random() < 0.8:
            continue
        out.append({"prog": prog, "screen": list(d)})
    return out
