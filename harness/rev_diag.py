"""Python mirror of RevAbs/TraceRev, used only to NAME the failing clause of a trace TLC did not accept.
TLC is the judge (vlib.reconcile): a trace TLC rejects is a violation even if this mirror cannot name the clause; a trace TLC accepts
but this mirror rejects is a machinery failure (exit 2)."""


def weight(k, j, kd):
    return 1 if kd == "alias" else 2 + ((3 * k + j) % 5)


def structure(args):
    n = len(args)
    parents = {k: [s["p"] for s in args[k - 1] if s["p"] > 0] for k in range(1, n + 1)}
    live = {n}
    for k in range(n, 0, -1):
        if k in live:
            live |= set(parents[k])
    ew = {}
    for c in range(1, n + 1):
        for j, s in enumerate(args[c - 1]):
            if s["p"] > 0:
                ew[(c, s["p"])] = ew.get((c, s["p"]), 0) + weight(c, j + 1, s["kd"])
    ps = {n: 1}
    for k in range(n - 1, 0, -1):
        ps[k] = sum(ew[(c, k)] * ps[c] for c in range(k + 1, n + 1) if (c, k) in ew)
    return n, parents, live, ew, ps


def diagnose(tr):
    """returns None if the trace is a behaviour of the abstract spec, else (event index, reason)"""
    args = tr["args"]
    n, parents, live, ew, ps = structure(args)
    ev = tr["events"]
    if not ev or ev[0]["e"] != "call":
        return (0, "first event is not a call: %r" % (ev[:1],))
    state = None

    def start(g):
        return {"g0": g, "applied": set(), "acc": {k: (g if k == n else 0) for k in range(1, n + 1)}, "returned": False}

    def ready(st, m):
        return m in live and m != 1 and m not in st["applied"] and \
            all(c in st["applied"] for c in live if m in parents[c])

    def apply(st, m):
        for p in set(parents[m]):
            st["acc"][p] += ew[(m, p)] * st["acc"][m]
        st["applied"].add(m)
    for i, e in enumerate(ev):
        if e["e"] == "call":
            if state is not None and not state["returned"]:
                return (i, "call while the previous call has neither returned nor raised")
            state = start(e["g"])
        elif e["e"] == "apply":
            m = e["n"]
            if tr.get("opaque"):
                return (i, "apply event in an opaque trace")
            if state["returned"]:
                return (i, "rule of node %d applied after the call returned" % m)
            if m not in live:
                return (i, "rule of node %d applied although the output does not depend on it" % m)
            if m in state["applied"]:
                return (i, "rule of node %d applied twice in one backward pass" % m)
            if not ready(state, m):
                return (i, "rule of node %d applied before all of its consumers contributed" % m)
            if e["g"] != state["acc"][m] or e["g2"] != 2 * state["acc"][m]:
                return (i, "rule of node %d applied to cotangent (%s, %s), complete cotangent is (%s, %s)" %
                        (m, e["g"], e["g2"], state["acc"][m], 2 * state["acc"][m]))
            want = [j + 1 for j, s in enumerate(args[m - 1]) if s["p"] > 0]
            if e["slots"] != want:
                return (i, "node %d: rules applied for argument positions %s, differentiated positions are %s" %
                        (m, e["slots"], want))
            apply(state, m)
        elif e["e"] == "ret":
            if tr.get("opaque"):
                while True:
                    r = [m for m in range(1, n + 1) if ready(state, m)]
                    if not r:
                        break
                    apply(state, min(r))
            if state["applied"] != live - {1}:
                return (i, "call returned although the rules of nodes %s were never applied" %
                        sorted(live - {1} - state["applied"]))
            if e["r"] != state["acc"][1] or e["r2"] != 2 * state["acc"][1]:
                return (i, "call with cotangent %s returned (%s, %s), sum over paths gives (%s, %s)" %
                        (state["g0"], e["r"], e["r2"], state["acc"][1], 2 * state["acc"][1]))
            if e.get("shape") != [2]:
                return (i, "result has shape %s, argument has shape [2]" % (e.get("shape"),))
            if not e["intact"]:
                return (i, "memory owned by the caller (input, constants, cotangents or earlier results) was modified")
            state["returned"] = True
        elif e["e"] == "raise":
            if state["returned"]:
                return (i, "raise after return")
            if not e["intact"]:
                return (i, "memory owned by the caller was modified by the abandoned call")
            state["returned"] = True
        else:
            return (i, "unexpected %s in %s: %s: %s" % (e["e"], e.get("where"), e.get("type"), e.get("msg")))
    if not state["returned"]:
        return (len(ev), "trace ends inside a call")
    if tr["jvp"] != ps[1] or tr["jvp2"] != 2 * ps[1] or not tr.get("fwd_intact"):
        return (len(ev), "forward mode gives tangent (%s, %s)%s, Jacobian from the sum over paths is %s  %s" %
                (tr["jvp"], tr["jvp2"], "" if tr.get("fwd_intact") else " and modified its inputs", ps[1], tr.get("fwd_error", "")))
    if tr["jac"] and tr["jac"] != [ps[1], 0, 0, ps[1]]:
        return (len(ev), "jacobian() gives %s, expected %s  %s" % (tr["jac"], [ps[1], 0, 0, ps[1]], tr.get("jac_error", "")))
    if tr.get("hvp"):
        h = 2 * ps[1] * ps[1]
        if tr["hvp"] != [h, 2 * h, h, 2 * h, h, 2 * h, 2 * ps[1] * tr["val"], 2 * ps[1] * tr["val2"]]:
            return (len(ev), "Hessian-vector products of z = sum(F(x)^2) by reverse-over-reverse / forward-over-reverse / reverse-over-forward, and the traced first-order gradient, are %s, "
                    "the products should be (%d, %d), the gradient (%d, %d)  %s" % (tr["hvp"], h, 2 * h, 2 * ps[1] * tr["val"], 2 * ps[1] * tr["val2"], tr.get("hvp_error", "")))
    return None


def diagnose_fwd(tr):
    """mirror of FwdAbs/TraceFwd: None if the recorded forward pass is a behaviour of the abstract forward spec, else (event index, reason)"""
    args = tr["args"]
    n = len(args)
    reach = {1}
    for k in range(2, n + 1):
        if any(s["p"] in reach for s in args[k - 1]):
            reach.add(k)
    boxed = {k: [j + 1 for j, s in enumerate(args[k - 1]) if s["p"] in reach] for k in range(1, n + 1)}
    tan = {k: (1 if k == 1 else 0) for k in range(1, n + 1)}
    applied = set()

    def complete(p):
        return p == 1 or all((p, j) in applied for j in boxed[p])
    evs = tr.get("fevents", [])
    if tr.get("opaque"):
        if evs:
            return (0, "JVP applications logged in an opaque trace")
        for k in range(2, n + 1):
            for j in boxed[k] if k in reach else []:
                s = args[k - 1][j - 1]
                tan[k] += weight(k, j, s["kd"]) * tan[s["p"]]
                applied.add((k, j))
    for i, e in enumerate(evs):
        k, j = e["n"], e["j"]
        if not (1 <= k <= n) or not (1 <= j <= len(args[k - 1])):
            return (i, "JVP application for a position that does not exist: node %d position %d" % (k, j))
        if k not in reach or j not in boxed[k]:
            return (i, "JVP rule applied for node %d position %d, which does not hold a traced value" % (k, j))
        if (k, j) in applied:
            return (i, "JVP rule of node %d position %d applied twice" % (k, j))
        p = args[k - 1][j - 1]["p"]
        if not complete(p):
            return (i, "JVP rule of node %d position %d applied before the tangent of node %d was complete" % (k, j, p))
        if e["g"] != tan[p] or e["g2"] != 2 * tan[p]:
            return (i, "JVP rule of node %d position %d applied to tangent (%s, %s), complete tangent of node %d is (%d, %d)" %
                    (k, j, e["g"], e["g2"], p, tan[p], 2 * tan[p]))
        applied.add((k, j))
        tan[k] += weight(k, j, args[k - 1][j - 1]["kd"]) * tan[p]
    live = {n}
    for k in range(n, 0, -1):
        if k in live:
            live |= {s["p"] for s in args[k - 1] if s["p"] > 0}
    for k in sorted(live & reach):
        if not complete(k):
            return (len(evs), "the forward pass returned before every differentiated position of node %d had been applied" % k)
    res = tan[n] if n in reach else 0
    if tr["jvp"] != res or tr["jvp2"] != 2 * res:
        return (len(evs), "forward mode returned (%s, %s), J v is (%d, %d)%s" % (tr["jvp"], tr["jvp2"], res, 2 * res,
                                                                              " [" + tr["fwd_error"] + "]" if tr.get("fwd_error") else ""))
    if not tr.get("fwd_intact"):
        return (len(evs), "the caller's tangent or input was modified by the forward pass")
    return None
