"""Call templates: how a configuration record of spec/rules/RuleSpace.tla becomes a real call.

build(cfg) -> (f, x, info):  f is a function of ONE argument (the differentiated one), written against autograd.numpy;
x is the generic point (plain NumPy array or Python float); info["f_numpy"] (optional) is the same call against plain
NumPy when it has to be spelled differently (it never is for wrapped functions: f works on plain arrays through the
`else: return f_raw(*args)` branch of the primitive wrapper, which IS plain NumPy).
"""
import operator

import numpy as onp

import autograd.numpy as np


class Skip(Exception):
    pass


def data(shape, lo=0.3, hi=2.7, k=0, cplx=False):
    """distinct generic values in (lo, hi): a golden-ratio sequence"""
    shape = tuple(shape)
    n = int(onp.prod(shape)) if shape else 1
    v = (lo + (hi - lo) * (((onp.arange(n) + 1 + k) * 0.6180339887498949) % 1.0)).reshape(shape)
    if cplx:
        w = (lo + (hi - lo) * (((onp.arange(n) + 1 + k) * 0.7548776662466927 + 0.3) % 1.0)).reshape(shape)
        v = v + 1j * w
    return v


def as_arg(v, scal, kid=0):
    """pass a rank-0 value as Python scalar or 0-d array"""
    if onp.ndim(v) != 0:
        return v
    if scal == "pyfloat":
        return complex(v) if onp.iscomplexobj(v) else float(v)
    return onp.array(v)


DOMAIN = {"arcsin": "unit", "arccos": "unit", "arctanh": "unit", "arccosh": "gt1"}


def dom(prim, v):
    d = DOMAIN.get(prim)
    if d == "unit":
        return v / 4.0
    if d == "gt1":
        return v + 1.0
    return v


OPS = {"add": operator.add, "subtract": operator.sub, "multiply": operator.mul, "divide": operator.truediv,
       "power": operator.pow, "mod": operator.mod}


def axis_arg(ax):
    if ax["k"] == "none":
        return None
    if ax["k"] == "int":
        return ax["a"]
    return tuple(ax["t"])


def build(cfg):
    fam = cfg["fam"]
    return BUILDERS[fam](cfg)


# ----------------------------------------------------------------------------- binary
def b_binary(c):
    prim, form, argnum, kind = c["prim"], c["form"], c["argnum"], c["kind"]
    sa, sb = tuple(c["s"]), tuple(c["s2"])
    # kind = (differentiated operand, other operand)
    ca = (kind[0] == "c") if argnum == 0 else (kind[1] == "c")
    cb = (kind[1] == "c") if argnum == 0 else (kind[0] == "c")
    a = data(sa, 0.3, 2.7, 0, ca)
    b = data(sb, 0.4, 1.9, 5, cb)
    if prim in ("mod", "remainder"):
        b = b + 0.31
    fn = getattr(np, prim)
    if form == "func":
        call = lambda u, v: fn(u, v)
    else:
        call = lambda u, v: OPS[prim](u, v)
    if argnum == 0:
        other = as_arg(b, c["scal"])
        if form == "rop":          # reflected operator: the plain value is on the left
            raise Skip("rop with argnum 0")
        f = lambda x: call(x, other)
        x = a
    else:
        other = as_arg(a, c["scal"])
        if form == "op":           # x on the right, array/scalar on the left -> reflected operator of the box
            raise Skip("op with argnum 1")
        f = lambda y: call(other, y)
        x = b
    if onp.ndim(x) == 0:
        x = as_arg(x, "pyfloat" if c["id"] % 2 == 0 else "zerod")
    return f, x, {}


def b_where(c):
    cond = data(tuple(c["s3"]), 0.0, 1.0, 3) > 0.5
    a = data(tuple(c["s"]), 0.3, 2.7, 0)
    b = data(tuple(c["s2"]), 0.4, 1.9, 5)
    if c["argnum"] == 1:
        return (lambda x: np.where(cond, x, b)), a, {}
    return (lambda y: np.where(cond, a, y)), b, {}


# ----------------------------------------------------------------------------- reductions
def b_reduce(c):
    prim, form = c["prim"], c["form"]
    x = data(tuple(c["s"]), 0.3, 2.7, 0, c["kind"] == "cc")
    ax = axis_arg(c["ax"])
    kw = {"axis": ax, "keepdims": c["kd"]}
    if c["ia"]:
        kw["ddof"] = c["ia"]
    if form == "method":
        f = lambda v: getattr(v, prim)(**kw)
    else:
        f = lambda v: getattr(np, prim)(v, **kw)
    if onp.ndim(x) == 0:
        x = onp.array(x)
    return f, x, {}


def b_cum(c):
    x = data(tuple(c["s"]))
    ax = axis_arg(c["ax"])
    if onp.ndim(x) == 0:
        x = onp.array(x)
    return (lambda v: getattr(np, c["prim"])(v, axis=ax)), x, {}


# ----------------------------------------------------------------------------- unary
def b_unary(c):
    prim, form = c["prim"], c["form"]
    x = dom(prim, data(tuple(c["s"]), 0.3, 2.7, 0, c["kind"] == "cc"))
    if prim in ("floor", "ceil", "rint", "trunc", "sign"):
        pass
    if form == "op":
        f = (lambda v: -v) if prim == "negative" else (lambda v: abs(v))
    elif form == "method":
        f = lambda v: getattr(v, prim)()
    else:
        f = lambda v: getattr(np, prim)(v)
    if onp.ndim(x) == 0:
        x = as_arg(x, c["scal"])
    return f, x, {}


# ----------------------------------------------------------------------------- rearrangements
def b_rearr(c):
    prim, form, st = c["prim"], c["form"], c["st"]
    s = tuple(c["s"])
    nd = len(s)
    ia, ib, tp = c["ia"], c["ib"], list(c["tp"])
    ax = axis_arg(c["ax"])
    x = data(s)
    if nd == 0:
        x = onp.array(x)

    def need(cond):
        if not cond:
            raise Skip("not applicable")
    if prim == "linspace":
        if c["argnum"] == 0:
            return (lambda a: np.linspace(a, 3.0, ia)), 1.3, {}
        return (lambda b: np.linspace(0.2, b, ia)), 1.3, {}
    if prim == "transpose":
        if st == "none":
            if form == "func":
                f = lambda v: np.transpose(v)
            elif form == "method":
                need(nd)
                f = lambda v: v.transpose()
            else:
                need(nd)
                f = lambda v: v.T
        else:
            need(nd)
            if form == "func":
                f = lambda v: np.transpose(v, tp)
            elif form == "method":
                f = lambda v: v.transpose(*tp)
            else:
                f = lambda v: v.transpose(tuple(tp))
    elif prim in ("swapaxes", "moveaxis", "rollaxis"):
        f = lambda v: getattr(np, prim)(v, ia, ib)
    elif prim == "expand_dims":
        f = lambda v: np.expand_dims(v, ia)
    elif prim == "squeeze":
        if form == "method":
            f = lambda v: v.squeeze()
        else:
            f = (lambda v: np.squeeze(v)) if ax is None else (lambda v: np.squeeze(v, axis=ax))
    elif prim == "reshape":
        if form == "func":
            f = lambda v: np.reshape(v, tp, order=st)
        elif form == "method":
            f = (lambda v: v.reshape(*tp)) if st == "C" else (lambda v: v.reshape(*tp, order="F"))
        else:
            f = lambda v: v.reshape(tuple(tp), order=st)
    elif prim == "ravel":
        f = (lambda v: np.ravel(v, order=st)) if form == "func" else (lambda v: v.ravel(order=st))
    elif prim == "flatten":
        f = lambda v: v.flatten()
    elif prim == "repeat":
        f = lambda v: np.repeat(v, ia, axis=ax)
    elif prim == "tile":
        f = (lambda v: np.tile(v, ia)) if st == "int" else (lambda v: np.tile(v, tuple(tp)))
    elif prim == "broadcast_to":
        f = lambda v: np.broadcast_to(v, tuple(tp))
    elif prim == "roll":
        f = lambda v: np.roll(v, ia, axis=ax)
    elif prim in ("flipud", "fliplr", "atleast_1d", "atleast_2d", "atleast_3d", "make_diagonal", "msort"):
        if prim == "make_diagonal":
            need(nd >= 1)
        if prim == "msort":
            need(hasattr(onp, "msort"))
        f = lambda v: getattr(np, prim)(v)
    elif prim == "sort0":
        f = lambda v: np.sort(v, axis=0)
    elif prim == "flip":
        f = lambda v: np.flip(v, axis=ax)
    elif prim == "rot90":
        f = lambda v: np.rot90(v, ia)
    elif prim in ("triu", "tril", "diag", "diagflat"):
        f = lambda v: getattr(np, prim)(v, ia)
    elif prim in ("trace", "diagonal"):
        if st == "axes":
            f = lambda v: getattr(np, prim)(v, ia, tp[0], tp[1])
        elif form == "method":
            f = lambda v: getattr(v, prim)(ia)
        else:
            f = lambda v: getattr(np, prim)(v, offset=ia)
    elif prim == "diff":
        f = lambda v: np.diff(v, n=ia, axis=ax)
    elif prim == "gradient":
        if st == "axis":
            f = lambda v: np.gradient(v, axis=ax)
        else:
            need(nd == 1)
            f = lambda v: np.gradient(v)
    elif prim == "pad":
        need(nd >= 1)
        if st == "int":
            w = ia
        elif st == "pair":
            w = tuple(tp)
        else:
            w = tuple((tp[2 * i], tp[2 * i + 1]) for i in range(nd))
        f = lambda v: np.pad(v, w, "constant")
    elif prim in ("split", "array_split"):
        sec = tp if st == "indices" else ia
        f = lambda v: getattr(np, prim)(v, sec, axis=ax)[min(ib, (len(tp) if st == "indices" else ia - 1))]
    elif prim in ("hsplit", "vsplit", "dsplit"):
        f = lambda v: getattr(np, prim)(v, ia)[min(ib, ia - 1)]
    elif prim == "sort":
        f = (lambda v: np.sort(v)) if st == "default" else (lambda v: np.sort(v, axis=ax))
    elif prim == "partition":
        need(nd >= 1 and s[-1] > ia)
        f = lambda v: np.partition(v, ia)
    elif prim == "clip":
        f = (lambda v: np.clip(v, 0.8, 2.0)) if form == "func" else (lambda v: v.clip(0.8, 2.0))
    elif prim == "astype":
        f = lambda v: v.astype(st)
    elif prim in ("fftshift", "ifftshift"):
        f = lambda v: getattr(np.fft, prim)(v, ax)
    elif prim == "full":
        f = lambda v: np.full(tuple(tp), v)
    else:
        raise Skip("no template for " + prim)
    return f, x, {}


BUILDERS = {"rearr": b_rearr, "binary": b_binary, "where": b_where, "reduce": b_reduce, "cum": b_cum, "unary": b_unary}
