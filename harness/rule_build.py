"""Call templates: how a configuration record of spec/rules/RuleSpace.tla becomes a real call.

build(cfg) -> (f, x, info):  f is a function of ONE argument (the differentiated one), written against autograd.numpy;
x is the generic point (plain NumPy array or Python float); info["f_numpy"] (optional) is the same call against plain
NumPy when it has to be spelled differently (it never is for wrapped functions: f works on plain arrays through the
`else: return f_raw(*args)` branch of the primitive wrapper, which IS plain NumPy).
"""
import operator

import numpy as onp

import autograd.numpy as np


class Skip(Exception):
    pass


QUADRANT = {"q2": 1j, "q3": -1.0, "q4": -1j}      # rotation of the (first-quadrant) generic complex points
DK = [0]       # offset of the generic point, set per configuration (cfg["dk"]): different seeds / thorough variants use different points


def data(shape, lo=0.3, hi=2.7, k=0, cplx=False):
    """distinct generic values in (lo, hi): a golden-ratio sequence"""
    shape = tuple(shape)
    k = k + DK[0]
    n = int(onp.prod(shape)) if shape else 1
    v = (lo + (hi - lo) * (((onp.arange(n) + 1 + k) * 0.6180339887498949) % 1.0)).reshape(shape)
    if cplx:
        w = (lo + (hi - lo) * (((onp.arange(n) + 1 + k) * 0.7548776662466927 + 0.3) % 1.0)).reshape(shape)
        v = v + 1j * w
    return v


def as_arg(v, scal, kid=0):
    """pass a rank-0 value as Python scalar or 0-d array"""
    if onp.ndim(v) != 0:
        return v
    if scal == "pyfloat":
        return complex(v) if onp.iscomplexobj(v) else float(v)
    return onp.array(v)


DOMAIN = {"arcsin": "unit", "arccos": "unit", "arctanh": "unit", "arccosh": "gt1"}


def dom(prim, v):
    d = DOMAIN.get(prim)
    if d == "unit":
        return v / 4.0
    if d == "gt1":
        return v + 1.0
    return v


OPS = {"add": operator.add, "subtract": operator.sub, "multiply": operator.mul, "divide": operator.truediv,
       "power": operator.pow, "mod": operator.mod}


def axis_arg(ax):
    if ax["k"] == "none":
        return None
    if ax["k"] == "int":
        return ax["a"]
    return tuple(ax["t"])


def build(cfg):
    fam = cfg["fam"]
    DK[0] = int(cfg.get("dk", 0))
    return BUILDERS[fam](cfg)


RAW_FAMILIES = {"scipy", "binary", "where", "reduce", "cum", "unary", "rearr", "join", "contract", "index", "mixorder", "linalg", "fft", "kink",
                "argsweep", "empty", "single", "realinto"}


def raw_value(cfg):
    """The value of the same call spelled against numpy ITSELF (the templates look `np` up when they are built and called, so for the
    duration of this function `np` is plain numpy): an oracle for the primal value that shares no code with autograd - the functions
    autograd re-implements in Python on top of its primitives (stack, vstack, array, select, r_, ...) never reach plain NumPy through the
    wrapper.  Raises Skip when the template uses something plain numpy does not have."""
    global np
    if cfg["fam"] not in RAW_FAMILIES:
        raise Skip("no raw template")
    saved = np
    np = onp
    try:
        f, x, info = BUILDERS[cfg["fam"]](cfg)
        return onp.asarray(info.get("f_numpy", f)(x))
    except Skip:
        raise
    except Exception as ex:     # noqa
        raise Skip("raw numpy: " + type(ex).__name__)
    finally:
        np = saved


# ----------------------------------------------------------------------------- binary
def b_binary(c):
    prim, form, argnum, kind = c["prim"], c["form"], c["argnum"], c["kind"]
    sa, sb = tuple(c["s"]), tuple(c["s2"])
    # kind = (differentiated operand, other operand)
    ca = (kind[0] == "c") if argnum == 0 else (kind[1] == "c")
    cb = (kind[1] == "c") if argnum == 0 else (kind[0] == "c")
    a = data(sa, 0.3, 2.7, 0, ca)
    b = data(sb, 0.4, 1.9, 5, cb)
    if prim in ("mod", "remainder"):
        b = b + 0.31
    rot = QUADRANT.get(c["st"], 1.0)
    a, b = (a * rot if ca else a), (b * rot if cb else b)
    fn = getattr(np, prim)
    if form == "func":
        call = lambda u, v: fn(u, v)
    else:
        call = lambda u, v: OPS[prim](u, v)
    if argnum == 0:
        other = as_arg(b, c["scal"])
        if form == "rop":          # reflected operator: the plain value is on the left
            raise Skip("rop with argnum 0")
        f = lambda x: call(x, other)
        x = a
    else:
        other = as_arg(a, c["scal"])
        if form == "op":           # x on the right, array/scalar on the left -> reflected operator of the box
            raise Skip("op with argnum 1")
        f = lambda y: call(other, y)
        x = b
    if onp.ndim(x) == 0:
        x = as_arg(x, "pyfloat" if c["id"] % 2 == 0 else "zerod")
    return f, x, {}


def b_where(c):
    cond = data(tuple(c["s3"]), 0.0, 1.0, 3) > 0.5
    a = data(tuple(c["s"]), 0.3, 2.7, 0)
    b = data(tuple(c["s2"]), 0.4, 1.9, 5)
    if c["argnum"] == 0:
        # the condition itself is the differentiated argument: a float array, non-zero everywhere (so NumPy's value is locally constant)
        cf = onp.where(cond, 1.0, -1.0) * data(tuple(c["s3"]), 0.5, 1.5, 7)
        if onp.ndim(cf) == 0:
            cf = as_arg(cf, "pyfloat" if c["id"] % 2 == 0 else "zerod")
        return (lambda cc: np.where(cc, a, b)), cf, {}
    if c["argnum"] == 1:
        return (lambda x: np.where(cond, x, b)), a, {}
    return (lambda y: np.where(cond, a, y)), b, {}


# ----------------------------------------------------------------------------- smooth functions at special points
def special_point(shape, st, k=0):
    x = data(shape, 0.3, 2.7, k)
    fl = x.ravel().copy()
    if st == "zeros":
        fl[:] = 0.0
    elif st == "zero1":
        fl[0] = 0.0
    elif st == "zero2":
        fl[:2] = 0.0
    elif st == "big":
        fl = onp.where(onp.arange(fl.size) % 2 == 0, 400.0, -400.0) + fl
    elif st == "huge":
        fl = onp.where(onp.arange(fl.size) % 2 == 0, 1100.0, -1100.0) + fl
    return fl.reshape(shape)


def b_special(c):
    prim, st, s = c["prim"], c["st"], tuple(c["s"])
    if prim in ("logaddexp", "logaddexp2") and st in ("big", "huge"):
        x = special_point(s, st)
        other = data(s, 0.4, 1.9, 5) + (x if st == "huge" else 0.0)
        fn = getattr(np, prim)
        return ((lambda v: fn(v, other)) if c["argnum"] == 0 else (lambda v: fn(other, v))), x, {}
    if prim == "power":
        e = float(c["ia"]) if c["ib"] else int(c["ia"])
        x = special_point(s, st)
        if st == "zeros" and e == 0 and False:
            pass
        return ((lambda v: v ** e) if c["form"] == "op" else (lambda v: np.power(v, e))), x, {}
    if c["s2"]:
        a, b = tuple(c["s"]), tuple(c["s2"])
        if prim in ("dot", "matmul", "inner", "outer", "kron", "tensordot"):
            za = special_point(a, st)
            zb = data(b, 0.4, 1.9, 5)
            if prim == "matmul" and (len(a) == 0 or len(b) == 0):
                raise Skip("matmul needs arrays")
            fn = getattr(np, prim)
            # the zero entries sit in the differentiated operand (argnum) or in the other one, alternating with the case id
            if c["id"] % 2:
                za, zb = data(a, 0.3, 2.7, 0), special_point(b, st, 5)
            return ((lambda v: fn(v, zb)) if c["argnum"] == 0 else (lambda v: fn(za, v))), (za if c["argnum"] == 0 else zb), {}
        # elementwise binary: operand w holds the zero
        w = c["ia"]
        if prim in ("divide", "true_divide", "mod"):
            w = 0
        ops = [data(a, 0.3, 2.7, 0), data(b, 0.4, 1.9, 5)]
        ops[w] = special_point(a, "zero1", 3)
        if prim in ("maximum", "minimum"):
            ops[1 - w] = ops[1 - w] + 0.05          # no ties
        fn = getattr(np, prim)
        if c["argnum"] == 0:
            return (lambda v: fn(v, ops[1])), ops[0], {}
        return (lambda v: fn(ops[0], v)), ops[1], {}
    if prim in ("prod", "sum", "mean", "var", "max", "min", "cumsum"):
        x = special_point(s, st)
        ax = axis_arg(c["ax"])
        if prim in ("max", "min") and st != "zero1":
            raise Skip("ties are the kink family's business")
        if prim == "min" and st == "zero1":
            pass            # the zero is the unique minimum
        if prim == "cumsum":
            return (lambda v: np.cumsum(v, axis=ax)), x, {}
        return (lambda v: getattr(np, prim)(v, axis=ax)), x, {}
    x = special_point(s, st)
    if prim in ("arcsin",) and st == "big":
        raise Skip("domain")
    return (lambda v: getattr(np, prim)(v)), x, {}


# ----------------------------------------------------------------------------- reading a component of a tuple-valued result
def b_seltuple(c):
    la = np.linalg
    prim = c["prim"]
    comp, way = c["tp"][0], c["tp"][1]
    batch, n = tuple(c["s"]), c["ia"]
    A = data(batch + (n, n), 0.1, 1.0, 2)
    S = A @ onp.swapaxes(A, -1, -2) + n * onp.eye(n) + onp.diag(onp.arange(n) * 0.7)
    R = data(batch + (n, n), 0.5, 2.5, 1) + 2.0 * onp.eye(n)
    ncomp = 3 if prim == "svd" else 2
    if prim == "eigh":
        call, x = (lambda v: la.eigh(_sym(v))), S
    elif prim == "eig":
        call, x = (lambda v: la.eig(_sym(v))), S
    elif prim == "slogdet":
        call, x = (lambda v: la.slogdet(v)), R
    else:
        call, x = (lambda v: la.svd(v, full_matrices=False)), R

    def pick(res):
        if way == 0:
            return res[comp]
        if way == 1:
            return res[comp - ncomp]
        if way == 2:
            return res[:comp + 1][comp]
        if way == 3:
            parts = tuple(res) if ncomp == 3 else res
            if ncomp == 3:
                a0, a1, a2 = res
                return (a0, a1, a2)[comp]
            a0, a1 = res
            return (a0, a1)[comp]
        if way == 4:
            return [e for e in res][comp]
        return res[::-1][ncomp - 1 - comp]

    def f(v):
        r = pick(call(v))
        # phase / sign conventions of eigenvectors and singular vectors: use a sign-invariant function of them
        if (prim in ("eigh", "eig") and comp == 1) or (prim == "svd" and comp in (0, 2)):
            return np.real(r) ** 2
        if prim == "slogdet" and comp == 0:
            return r * 1.0            # the sign: locally constant
        return np.real(r)
    return f, x, {}


# ----------------------------------------------------------------------------- single precision
def b_single(c):
    c2 = dict(c, scal="array")
    base = b_where if c["prim"] == "where" else (b_binary if c["prim"] in ("add", "subtract", "multiply", "divide") else b_contract)
    f, x, info = base(c2)
    if not isinstance(x, onp.ndarray) or x.ndim == 0:
        raise Skip("single-precision family needs an array operand")
    x32 = x.astype(onp.complex64 if onp.iscomplexobj(x) else onp.float32)
    return f, x32, dict(info, x_jac=x, single=True)


# ----------------------------------------------------------------------------- arrays with no entries
def b_empty(c):
    prim, s, v = c["prim"], tuple(c["s"]), c["ia"]
    x = onp.zeros(s)
    ax = axis_arg(c["ax"])
    nd = len(s)
    full = tuple(d if d else 2 for d in s)          # the same shape with the empty axis given 2 entries
    if prim in ("sum", "prod", "cumsum"):
        if prim == "cumsum":
            if c["kd"] or isinstance(ax, tuple):
                raise Skip("cumsum has no keepdims")
            return (lambda u: np.cumsum(u, axis=ax)), x, {}
        return (lambda u: getattr(np, prim)(u, axis=ax, keepdims=c["kd"])), x, {}
    if prim in ("mean_nonempty_axis", "max_nonempty_axis"):
        if ax is None or s[ax] == 0:
            raise Skip("reduction over an empty axis is not defined")
        fn = np.mean if prim.startswith("mean") else np.max
        return (lambda u: fn(u, axis=ax, keepdims=c["kd"])), x, {}
    other = onp.ones(s)
    table = {
        "reshape": lambda u: np.reshape(u, (-1,) if v else s[::-1]),
        "transpose": lambda u: np.transpose(u) if v else u.T,
        "ravel": lambda u: np.ravel(u),
        "negative": lambda u: -u,
        "exp": lambda u: np.exp(u),
        "abs": lambda u: np.abs(u),
        "sqrt": lambda u: np.sqrt(u + 1.0),
        "multiply": lambda u: u * other if v else u * 2.0,
        "add": lambda u: u + other if v else 1.5 + u,
        "concatenate": lambda u: np.concatenate((u, onp.ones(full)) if v else (u, u), axis=[i for i, d in enumerate(s) if d == 0][0]),
        "stack": lambda u: np.stack((u, other), axis=v),
        "getitem_empty": lambda u: u[0:0] if v else u[..., :0],
        "dot": lambda u: np.dot(u, onp.ones(s[::-1])) if nd == 2 else np.dot(u, other),
        "matmul": lambda u: np.matmul(u, onp.ones(s[::-1])) if nd == 2 else np.matmul(u, other),
        "outer": lambda u: np.outer(u, onp.ones(3)) if v else np.outer(onp.ones(3), u),
        "where": lambda u: np.where(onp.ones(s) > 0, u, other),
        "sort": lambda u: np.sort(u, axis=0 if v else -1),
        "flip": lambda u: np.flip(u, axis=0 if v else None),
        "expand_dims": lambda u: np.expand_dims(u, v),
        "squeeze": lambda u: np.squeeze(u[..., None] if v else u[None]),
        "tile": lambda u: np.tile(u, 2 if v else (2,) * nd),
        "repeat": lambda u: np.repeat(u, 2, axis=0 if v else None),
        "pad": lambda u: np.pad(u, 1, "constant"),
        "broadcast_to": lambda u: np.broadcast_to(u, (2,) + s),
        "diag": lambda u: np.diag(u) if nd == 1 else np.diagonal(u),
        "trace": lambda u: np.trace(u) if nd == 2 else np.sum(u),
        "tensordot": lambda u: np.tensordot(u, onp.ones(s[::-1]), axes=1) if nd == 2 else np.tensordot(u, other, axes=1),
        "einsum": lambda u: np.einsum("ij->j", u) if nd == 2 else np.einsum("i->", u),
        "kron": lambda u: np.kron(u, onp.ones((2,) * nd)),
        "clip": lambda u: np.clip(u, 0.0, 1.0),
    }
    return table[prim], x, {}


# ----------------------------------------------------------------------------- a real value placed into a complex array
def b_realinto(c):
    prim, st, pre, pos = c["prim"], c["st"], c["ia"], c["argnum"]
    s = tuple(c["s"])
    x = data(s)
    C = data(s, 0.5, 1.5, 3, True)
    perm = onp.arange(s[0])

    def prep(v):
        if pre == 1:
            return v[perm]
        if pre == 2:
            return v[::1]
        return v

    def f(v):
        ops = [prep(v), C] if pos == 0 else [C, prep(v)]
        seq = tuple(ops) if st == "tuple" else ops
        if prim == "append":
            return np.append(ops[0], ops[1])
        if prim == "array":
            return np.array(seq)
        return getattr(np, prim)(seq)
    return f, x, {}


# ----------------------------------------------------------------------------- the extension API on arguments of different shapes
def b_extend(c):
    from autograd.extend import primitive, defvjp, defjvp
    from autograd.numpy.numpy_vjps import unbroadcast
    tbl, red, api = c["ia"], c["ib"], c["form"]
    fl0, fl1 = tbl in (1, 3), tbl in (2, 3)
    sa, sb = tuple(c["s"]), tuple(c["s2"])
    a = data(sa, 0.3, 2.7, 0)
    b = data(sb, 0.4, 1.9, 5)
    full = onp.broadcast(a, b).shape

    def raw(u, v, shift=0.0):
        uu = onp.floor(u) if fl0 else u
        vv = onp.floor(v) if fl1 else v
        r = uu * vv + shift
        return onp.sum(r) if red else r
    user = primitive(raw)
    A = lambda u: np.floor(u) if fl0 else u
    B = lambda v: np.floor(v) if fl1 else v
    spread = lambda g: g + np.zeros(full)                     # the cotangent of the (possibly summed) output, at full shape
    r0 = None if fl0 else (lambda ans, u, v, shift=0.0: lambda g: unbroadcast(spread(g) * B(v), np.metadata(u)))
    r1 = None if fl1 else (lambda ans, u, v, shift=0.0: lambda g: unbroadcast(spread(g) * A(u), np.metadata(v)))
    fin = (lambda t: np.sum(t)) if red else (lambda t: t)
    j0 = None if fl0 else (lambda g, ans, u, v, shift=0.0: fin(g * B(v) + np.zeros(full)))
    j1 = None if fl1 else (lambda g, ans, u, v, shift=0.0: fin(A(u) * g + np.zeros(full)))
    if api == "defvjp":
        defvjp(user, r0, r1)
        defjvp(user, j0, j1)
    elif api in ("deprecated", "defgrad"):
        # the pre-1.2 registration methods on the primitive object (still exported, emit a deprecation warning)
        if tbl in (1, 2):
            # in the compatibility shim prim.defvjp / prim.defgrad and prim.defvjp_is_zero each re-register the WHOLE rule table from
            # their own bookkeeping, so mixing them loses the earlier registrations (the lost derivative raises - loudly)
            raise Skip("deprecated API: rules and zero declarations cannot be mixed")
        import warnings
        from autograd.core import primitive as old_primitive
        user = old_primitive(raw)
        with warnings.catch_warnings():
            warnings.simplefilter("ignore")
            zero = tuple(i for i, fl in enumerate((fl0, fl1)) if fl)
            only = c["argnum"] if (tbl == 0 and c["id"] % 3 == 1) else None      # register the rule of the differentiated argument ONLY
            if only is not None:
                if api == "deprecated":
                    rule_ = (lambda g, ans, vs, gvs, u, v, shift=0.0: unbroadcast(spread(g) * B(v), np.metadata(u))) if only == 0 else \
                        (lambda g, ans, vs, gvs, u, v, shift=0.0: unbroadcast(spread(g) * A(u), np.metadata(v)))
                    user.defvjp(rule_, argnum=only)
                else:
                    user.defgrad(r0 if only == 0 else r1, argnum=only)
            elif api == "deprecated":
                if not fl0:
                    user.defvjp(lambda g, ans, vs, gvs, u, v, shift=0.0: unbroadcast(spread(g) * B(v), np.metadata(u)), argnum=0)
                if not fl1:
                    user.defvjp(lambda g, ans, vs, gvs, u, v, shift=0.0: unbroadcast(spread(g) * A(u), np.metadata(v)), argnum=1)
            else:
                if not fl0:
                    user.defgrad(r0, argnum=0)
                if not fl1:
                    user.defgrad(r1, argnum=1)
            for zslot in zero:                      # one declaration per argument: the declarations accumulate
                user.defvjp_is_zero(argnums=(zslot,))
        defjvp(user, j0, j1)
    else:
        defvjp(user, r1, r0, argnums=(1, 0))
        defjvp(user, j1, j0, argnums=(1, 0))
    kw = {"shift": 0.25} if c["id"] % 2 else {}
    if c["argnum"] == 0:
        f, fn, x = (lambda u: user(u, b, **kw)), (lambda u: raw(u, b, **kw)), a
    else:
        f, fn, x = (lambda v: user(a, v, **kw)), (lambda v: raw(a, v, **kw)), b
    if onp.ndim(x) == 0:
        x = as_arg(x, "pyfloat" if c["id"] % 2 == 0 else "zerod")
    info = {"f_numpy": fn}
    if api in ("deprecated", "defgrad") and tbl == 0 and c["id"] % 3 == 1:
        # the OTHER argument has no reverse rule at all: differentiating with respect to it must raise (whatever was registered for other
        # primitives before)
        info["missing"] = ((lambda v: user(a, v, **kw)), b) if c["argnum"] == 0 else ((lambda u: user(u, b, **kw)), a)
    return f, x, info


# ----------------------------------------------------------------------------- reductions
def b_reduce(c):
    prim, form = c["prim"], c["form"]
    x = data(tuple(c["s"]), 0.3, 2.7, 0, c["kind"] == "cc")
    ax = axis_arg(c["ax"])
    kw = {"axis": ax, "keepdims": c["kd"]}
    if c["ia"]:
        kw["ddof"] = c["ia"]
    if form == "method":
        f = lambda v: getattr(v, prim)(**kw)
    else:
        f = lambda v: getattr(np, prim)(v, **kw)
    if onp.ndim(x) == 0:
        x = onp.array(x)
    return f, x, {}


def b_cum(c):
    x = data(tuple(c["s"]))
    ax = axis_arg(c["ax"])
    if onp.ndim(x) == 0:
        x = onp.array(x)
    if c["form"] == "method":
        return (lambda v: getattr(v, c["prim"])(ax)), x, {}
    return (lambda v: getattr(np, c["prim"])(v, axis=ax)), x, {}


# ----------------------------------------------------------------------------- unary
def b_unary(c):
    prim, form = c["prim"], c["form"]
    x = dom(prim, data(tuple(c["s"]), 0.3, 2.7, 0, c["kind"] == "cc"))
    if c["kind"] == "cc":
        x = x * QUADRANT.get(c["st"], 1.0)
    if prim in ("floor", "ceil", "rint", "trunc", "sign"):
        pass
    if form == "op":
        f = (lambda v: -v) if prim == "negative" else (lambda v: abs(v))
    elif form == "method":
        f = lambda v: getattr(v, prim)()
    else:
        f = lambda v: getattr(np, prim)(v)
    if onp.ndim(x) == 0:
        x = as_arg(x, c["scal"])
    return f, x, {}


# ----------------------------------------------------------------------------- rearrangements
def b_rearr(c):
    prim, form, st = c["prim"], c["form"], c["st"]
    s = tuple(c["s"])
    nd = len(s)
    ia, ib, tp = c["ia"], c["ib"], list(c["tp"])
    ax = axis_arg(c["ax"])
    x = data(s)
    if nd == 0:
        x = onp.array(x)

    def need(cond):
        if not cond:
            raise Skip("not applicable")
    if prim == "linspace":
        if c["argnum"] == 0:
            return (lambda a: np.linspace(a, 3.0, ia)), 1.3, {}
        return (lambda b: np.linspace(0.2, b, ia)), 1.3, {}
    if prim == "transpose":
        if st == "none":
            if form == "func":
                f = lambda v: np.transpose(v)
            elif form == "method":
                need(nd)
                f = lambda v: v.transpose()
            else:
                need(nd)
                f = lambda v: v.T
        else:
            need(nd)
            if form == "func":
                f = lambda v: np.transpose(v, tp)
            elif form == "method":
                f = lambda v: v.transpose(*tp)
            else:
                f = lambda v: v.transpose(tuple(tp))
    elif prim == "swapaxes" and form == "method":
        f = lambda v: v.swapaxes(ia, ib)
    elif prim in ("swapaxes", "moveaxis", "rollaxis"):
        f = lambda v: getattr(np, prim)(v, ia, ib)
    elif prim == "expand_dims":
        f = lambda v: np.expand_dims(v, ia)
    elif prim == "squeeze":
        if form == "method":
            f = lambda v: v.squeeze()
        else:
            f = (lambda v: np.squeeze(v)) if ax is None else (lambda v: np.squeeze(v, axis=ax))
    elif prim == "reshape":
        if form == "func":
            f = lambda v: np.reshape(v, tp, order=st)
        elif form == "method":
            f = (lambda v: v.reshape(*tp)) if st == "C" else (lambda v: v.reshape(*tp, order="F"))
        else:
            f = lambda v: v.reshape(tuple(tp), order=st)
    elif prim == "ravel":
        if st == "Fpos":
            f = lambda v: v.ravel("F")
        else:
            f = (lambda v: np.ravel(v, order=st)) if form == "func" else (lambda v: v.ravel(order=st))
    elif prim == "flatten":
        f = (lambda v: v.flatten()) if st == "-" else ((lambda v: v.flatten(order="F")) if st == "F" else (lambda v: v.flatten("F")))
    elif prim == "repeat" and form == "method":
        f = (lambda v: v.repeat(ia, ax)) if c["id"] % 2 else (lambda v: v.repeat(ia, axis=ax))
    elif prim == "repeat":
        f = lambda v: np.repeat(v, ia, axis=ax)
    elif prim == "tile":
        f = (lambda v: np.tile(v, ia)) if st == "int" else (lambda v: np.tile(v, tuple(tp)))
    elif prim == "broadcast_to":
        f = lambda v: np.broadcast_to(v, tuple(tp))
    elif prim == "roll":
        f = lambda v: np.roll(v, ia, axis=ax)
    elif prim in ("flipud", "fliplr", "atleast_1d", "atleast_2d", "atleast_3d", "make_diagonal", "msort"):
        if prim == "make_diagonal":
            need(nd >= 1)
        if prim == "msort":
            need(hasattr(onp, "msort"))
        f = lambda v: getattr(np, prim)(v)
    elif prim == "sort0":
        f = lambda v: np.sort(v, axis=0)
    elif prim == "flip":
        f = lambda v: np.flip(v, axis=ax)
    elif prim == "rot90":
        f = lambda v: np.rot90(v, ia)
    elif prim in ("triu", "tril", "diag", "diagflat"):
        f = lambda v: getattr(np, prim)(v, ia)
    elif prim in ("trace", "diagonal"):
        if st == "axes":
            f = lambda v: getattr(np, prim)(v, ia, tp[0], tp[1])
        elif form == "method":
            f = lambda v: getattr(v, prim)(ia)
        else:
            f = lambda v: getattr(np, prim)(v, offset=ia)
    elif prim == "diff":
        f = lambda v: np.diff(v, n=ia, axis=ax)
    elif prim == "gradient" and st in ("tupleaxis", "listaxis", "multi"):
        axs = None if st == "multi" else (tuple(tp) if st == "tupleaxis" else list(tp))

        def f(v):
            parts = np.gradient(v) if axs is None else np.gradient(v, axis=axs)
            tot = 0.0
            for k in range(len(parts)):
                tot = tot + (k + 1.5) * parts[k]
            return tot
    elif prim == "gradient":
        if st == "axis":
            f = lambda v: np.gradient(v, axis=ax)
        else:
            need(nd == 1)
            f = lambda v: np.gradient(v)
    elif prim == "pad":
        need(nd >= 1)
        if st in ("int", "cv", "cvpair", "modekw"):
            w = ia
        elif st == "pair":
            w = tuple(tp)
        else:
            w = tuple((tp[2 * i], tp[2 * i + 1]) for i in range(nd))
        if st == "cv":            # a non-zero fill value: the border does not depend on the input, its tangent / cotangent is 0
            f = lambda v: np.pad(v, w, "constant", constant_values=2.5)
        elif st == "cvpair":
            f = lambda v: np.pad(v, w, "constant", constant_values=(1.5, -2.0))
        elif st == "modekw":
            f = lambda v: np.pad(v, w, mode="constant")
        else:
            f = lambda v: np.pad(v, w, "constant")
    elif prim in ("split", "array_split"):
        sec = tp if st == "indices" else ia
        f = lambda v: getattr(np, prim)(v, sec, axis=ax)[min(ib, (len(tp) if st == "indices" else ia - 1))]
    elif prim in ("hsplit", "vsplit", "dsplit"):
        f = lambda v: getattr(np, prim)(v, ia)[min(ib, ia - 1)]
    elif prim == "sort":
        f = (lambda v: np.sort(v)) if st == "default" else (lambda v: np.sort(v, axis=ax))
    elif prim == "partition":
        need(nd >= 1 and s[-1] > ia)
        f = lambda v: np.partition(v, ia)
    elif prim == "clip":
        cargs, ckw = {"-": ((0.8, 2.0), {}), "upper": ((None, 2.0), {}), "lower": ((0.8, None), {}), "kwmax": ((), {"a_max": 2.0}),
                      "kwmin": ((), {"a_min": 0.8}), "kwboth": ((), {"a_min": 0.8, "a_max": 2.0})}[st]
        f = (lambda v: np.clip(v, *cargs, **ckw)) if form == "func" else (lambda v: v.clip(*cargs, **ckw))
    elif prim == "astype":
        f = lambda v: v.astype(st)
    elif prim in ("fftshift", "ifftshift"):
        f = lambda v: getattr(np.fft, prim)(v, ax)
    elif prim == "full":
        f = lambda v: np.full(tuple(tp), v)
    else:
        raise Skip("no template for " + prim)
    if prim == "astype":
        # a precision-changing cast is the identity map up to rounding: its finite differences are rounding noise, the Jacobian is I
        if c["kind"] == "cc" or st.startswith("complex"):
            x = data(s, 0.3, 2.7, 0, True) if c["kind"] == "cc" else x
        return f, x, {"f_jac": (lambda v: onp.real(v) + 0.0) if (onp.iscomplexobj(x) and not st.startswith("complex")) else (lambda v: v + 0.0)}
    return f, x, {}


# ----------------------------------------------------------------------------- joins
def b_join(c):
    prim, st = c["prim"], c["st"]
    s = tuple(c["s"])
    n, mask = c["ia"], c["ib"]
    if mask >= (1 << n):
        raise Skip("mask beyond operand count")
    ax = axis_arg(c["ax"])
    x = data(s) if s else 1.3
    consts = [data(s, 0.5, 1.5, 3 + 4 * i) if s else 0.7 + i for i in range(n)]

    def ops(v):
        return [v if (mask >> i) & 1 else consts[i] for i in range(n)]

    def seq(v):
        o = ops(v)
        return tuple(o) if st == "tuple" else o
    if prim == "concatenate":
        f = (lambda v: np.concatenate(seq(v), axis=ax)) if c["ax"]["k"] != "none" else (lambda v: np.concatenate(seq(v), axis=None))
    elif prim == "stack":
        f = lambda v: np.stack(seq(v), axis=ax)
    elif prim in ("vstack", "hstack", "column_stack", "row_stack"):
        if prim == "row_stack" and not hasattr(onp, "row_stack"):
            raise Skip("no row_stack")
        f = lambda v: getattr(np, prim)(seq(v))
    elif prim == "append":
        f = lambda v: np.append(ops(v)[0], ops(v)[1], axis=ax)
    elif prim == "array":
        if st == "list":
            f = lambda v: np.array(ops(v))
        elif st == "nested":
            f = lambda v: np.array([ops(v), ops(v)[::-1]])
        elif st == "ndmin":
            f = lambda v: np.array(ops(v)[0], ndmin=4)
        elif st == "bare":
            f = lambda v: np.array(ops(v)[0])
        elif st in ("listndmin1", "listndmin3"):
            f = lambda v: np.array(ops(v), ndmin=int(st[-1]))          # a list of operands AND ndmin: only the result is padded
        elif st == "listdtype":
            f = lambda v: np.array(ops(v), dtype=float)
        elif st == "tuple":
            f = lambda v: np.array(tuple(ops(v)))
        else:
            f = lambda v: np.array(ops(v))
    elif prim == "r_":
        f = lambda v: np.r_[tuple(ops(v))]
    elif prim == "c_":
        f = lambda v: np.c_[tuple(ops(v))]
    elif prim == "select":
        cond1 = data(s, 0.0, 1.0, 2) > 0.6
        cond2 = data(s, 0.0, 1.0, 9) > 0.4
        f = lambda v: np.select([cond1, cond2], [(v if mask & 1 else consts[0]) * 2.0, (v if mask & 2 else consts[1]) * 3.0],
                                default=(v if mask & 4 else 0.25))
    else:
        raise Skip("no template for " + prim)
    return f, x, {}


# ----------------------------------------------------------------------------- contractions
def b_contract(c):
    prim, form, st, argnum, kind = c["prim"], c["form"], c["st"], c["argnum"], c["kind"]
    sa, sb = tuple(c["s"]), tuple(c["s2"])
    ca = (kind[0] == "c") if argnum == 0 else (kind[1] == "c")
    cb = (kind[1] == "c") if argnum == 0 else (kind[0] == "c")
    a = data(sa, 0.3, 2.7, 0, ca)
    b = data(sb, 0.4, 1.9, 5, cb)
    tp = list(c["tp"])
    if prim == "einsum":
        if not sb and "," not in st:
            f2 = lambda u: np.einsum(st, u)
            return f2, a, {}
        if form == "list":
            # (op0, sublist0, op1, sublist1, sublistout) convention, ellipsis supported
            if "->" not in st:
                raise Skip("list form needs explicit output")
            ins, out = st.split("->")
            i0, i1 = ins.split(",")
            letters = sorted(set(st) - set(",->."))
            num = {ch: k for k, ch in enumerate(letters)}

            def sub(t):
                o = []
                k = 0
                while k < len(t):
                    if t[k] == ".":
                        o.append(Ellipsis)
                        k += 3
                    else:
                        o.append(num[t[k]])
                        k += 1
                return o
            call = lambda u, v: np.einsum(u, sub(i0), v, sub(i1), sub(out))
        else:
            call = lambda u, v: np.einsum(st, u, v)
    elif prim == "tensordot":
        if st == "int":
            axes = c["ia"]
        elif st == "intpair":
            axes = (tp[0], tp[1])
        else:
            h = len(tp) // 2
            axes = (tp[:h], tp[h:])
        call = lambda u, v: np.tensordot(u, v, axes)
    elif prim == "cross":
        kw = {"-": {}, "axis0": {"axis": 0}, "axis-1": {"axis": -1}, "axisa0": {"axisa": 0}}[st]
        call = lambda u, v: np.cross(u, v, **kw)
    elif prim == "matmul" and form == "op":
        call = lambda u, v: u @ v
    elif prim == "dot" and form == "method":
        call = lambda u, v: u.dot(v)
    else:
        call = lambda u, v: getattr(np, prim)(u, v)
    if argnum == 0:
        f, x = (lambda u: call(u, b)), a
    else:
        f, x = (lambda v: call(a, v)), b
    if onp.ndim(x) == 0:
        x = onp.array(x) if c["id"] % 2 else (complex(x) if onp.iscomplexobj(x) else float(x))
    return f, x, {}


# ----------------------------------------------------------------------------- index expressions
def b_index(c):
    s = tuple(c["s"])
    x = data(s)
    idx = make_idx(c, s)
    return (lambda v: v[idx]), x, {}


def b_mixorder(c):
    """x[idx] combined with two dense uses of x in every order of arrival; the dense uses hand back cotangents of different memory layouts
    (C-ordered, transposed views, reshaped)"""
    s = tuple(c["s"])
    x = data(s)
    idx = make_idx(c, s)
    try:
        cshape = onp.shape(x[idx])
    except Exception as ex:     # noqa
        raise Skip("numpy rejects the index: " + type(ex).__name__)
    w1, w2, wc = data(s, 0.5, 1.5, 3), data(s, 0.4, 1.9, 7), data(cshape, 0.3, 1.2, 11)
    d, o = c["ia"], c["ib"]

    def dense(v, w):
        if d == 1:
            return np.sum(v.T * w.T)
        if d == 2:
            return np.sum(np.reshape(v, (-1,)) * w.ravel())
        return np.sum(v * w)

    def f(v):
        S = lambda: np.sum(v[idx] * wc)
        D1 = lambda: dense(v, w1)
        D2 = lambda: dense(v, w2)
        terms = [[S, D1, D2], [D1, S, D2], [D1, D2, S]][o]
        tot = terms[0]()
        tot = tot + terms[1]()
        return tot + terms[2]()
    return f, x, {}


def make_idx(c, s):
    items = []
    dim = 0
    for it in c["tp"]:
        t = it["t"]
        if t == "int":
            items.append(it["v"])
            dim += 1
        elif t == "slice":
            items.append(slice(*[None if q == 9 else q for q in it["v"]]))
            dim += 1
        elif t == "ell":
            items.append(Ellipsis)
        elif t == "new":
            items.append(None)
        elif t == "arr":
            items.append(onp.array(it["v"]))
            dim += 1
        elif t == "list":
            items.append(list(it["v"]))
            dim += 1
        elif t == "arr2":
            items.append(onp.array(it["v"]).reshape(2, 2))
            dim += 1
        elif t == "mask":
            # a boolean mask over the axis this item lands on (only known when no ellipsis precedes it)
            if any(j["t"] == "ell" for j in c["tp"]):
                raise Skip("mask after ellipsis")
            if dim >= len(s):
                raise Skip("mask beyond rank")
            m = [bool(b) for b in it["v"]] + [True] * (s[dim] - len(it["v"]))
            items.append(onp.array(m[:s[dim]]))
            dim += 1
        elif t == "maskfull":
            items.append(data(s, 0.0, 1.0, 4) > 0.45)
    st = c["st"]
    if st == "bare":
        idx = items[0]
    elif st == "list":
        idx = items[0]
    else:
        idx = tuple(items)
    return idx


# ----------------------------------------------------------------------------- linalg
def _sym(v):
    return (v + np.swapaxes(v, -1, -2)) / 2.0


def b_linalg(c):
    prim, st, kind = c["prim"], c["st"], c["kind"]
    la = np.linalg
    cplx = kind == "cc"
    if prim == "norm":
        x = data(tuple(c["s"]), 0.3, 2.7, 0, cplx)
        ax = axis_arg(c["ax"])
        o = {"none": None, "2": 2, "3": 3, "1": 1, "inf": onp.inf, "-inf": -onp.inf, "fro": "fro", "nuc": "nuc", "0.5": 0.5}[st]
        if c["kd"]:
            return (lambda v: la.norm(v, o, ax, keepdims=True)), x, {}
        if c["id"] % 2:
            return (lambda v: la.norm(v, ord=o, axis=ax)), x, {}
        return (lambda v: la.norm(v, o, ax)), x, {}
    batch = tuple(c["s"])
    n, m = c["ia"], c["ib"] or c["ia"]
    M = data(batch + (n, m), 0.5, 2.5, 0, cplx)
    if n == m:
        M = M + 2.0 * onp.eye(n)
    out = c["tp"][0] if c["tp"] else 0
    if prim == "det":
        return (lambda v: la.det(v)), M, {}
    if prim == "slogdet":
        return (lambda v: la.slogdet(v)[1]), M, {}
    if prim == "inv":
        return (lambda v: la.inv(v)), M, {}
    if prim == "pinv":
        return (lambda v: la.pinv(v)), M, {}
    if prim == "solve":
        bshape = batch + ((n,) if st == "vec" else (n, 2))
        if st == "vec" and batch:
            raise Skip("vector right-hand side with batch dimensions is ambiguous in NumPy 2")
        B = data(bshape, 0.3, 1.2, 4, cplx)
        if c["argnum"] == 0:
            return (lambda v: la.solve(v, B)), M, {}
        return (lambda y: la.solve(M, y)), B, {}
    if cplx and prim in ("cholesky", "eigh", "eig", "svd"):
        # complex variants, restricted to outputs that do not depend on the arbitrary phase of eigen / singular vectors
        Ac = data(batch + (n, n), 0.1, 1.0, 2, True)
        H = Ac @ onp.conj(onp.swapaxes(Ac, -1, -2)) + n * onp.eye(n) + onp.diag(onp.arange(n) * 0.7)
        herm = lambda v: 0.5 * (v + np.conj(np.swapaxes(v, -1, -2)))
        if prim == "cholesky":
            return (lambda v: la.cholesky(herm(v))), H, {}
        if prim == "eigh":
            kw = () if st == "default" else (st,)
            if out == 0:
                return (lambda v: la.eigh(herm(v), *kw)[0]), H, {}
            return (lambda v: np.abs(la.eigh(herm(v), *kw)[1]) ** 2), H, {}
        if prim == "eig":
            G = data(batch + (n, n), 0.5, 2.5, 3, True) + onp.diag(onp.arange(n) * 1.3)
            if out == 0:
                return (lambda v: la.eig(v)[0]), G, {}
            return (lambda v: np.abs(la.eig(v)[1]) ** 2), G, {}
        R = data(batch + (n, m), 0.5, 2.5, 1, True)
        if st == "s_only":
            if out:
                raise Skip("single output")
            return (lambda v: la.svd(v, compute_uv=False)), R, {}
        fm = st == "full"
        if out == 1:
            return (lambda v: la.svd(v, full_matrices=fm)[1]), R, {}
        return (lambda v: np.abs(la.svd(v, full_matrices=fm)[out]) ** 2), R, {}
    # symmetric positive definite input, differentiated through an explicit symmetrisation
    A = data(batch + (n, n), 0.1, 1.0, 2)
    S = A @ onp.swapaxes(A, -1, -2) + n * onp.eye(n) + onp.diag(onp.arange(n) * 0.7)
    if prim == "cholesky":
        return (lambda v: la.cholesky(_sym(v))), S, {}
    if prim == "eigh":
        kw = () if st == "default" else (st,)
        if out == 0:
            return (lambda v: la.eigh(_sym(v), *kw)[0]), S, {}
        return (lambda v: la.eigh(_sym(v), *kw)[1] ** 2), S, {}
    if prim == "eig":
        if out == 0:
            return (lambda v: np.real(la.eig(_sym(v))[0])), S, {}
        return (lambda v: np.real(la.eig(_sym(v))[1]) ** 2), S, {}
    if prim == "svd":
        R = data(batch + (n, m), 0.5, 2.5, 1)
        if st == "s_only":
            if out:
                raise Skip("single output")
            return (lambda v: la.svd(v, compute_uv=False)), R, {}
        fm = st == "full"
        if out == 1:
            return (lambda v: la.svd(v, full_matrices=fm)[1]), R, {}
        return (lambda v: la.svd(v, full_matrices=fm)[out] ** 2), R, {}
    raise Skip("no template for " + prim)


# ----------------------------------------------------------------------------- fft
def b_fft(c):
    prim, kind = c["prim"], c["kind"]
    ff = np.fft
    s = tuple(c["s"])
    x = data(s, 0.3, 2.7, 0, kind == "cc")
    norm = None if c["st"] == "none" else c["st"]
    if prim in ("fftshift", "ifftshift"):
        ax = axis_arg(c["ax"])
        return ((lambda v: getattr(ff, prim)(v)) if ax is None else (lambda v: getattr(ff, prim)(v, axes=ax))), x, {}
    if prim in ("fft", "ifft", "rfft", "irfft"):
        n = c["ia"] or None
        ax = axis_arg(c["ax"])
        if c["form"] == "kw":
            return (lambda v: getattr(ff, prim)(v, n=n, axis=ax, norm=norm)), x, {}
        return (lambda v: getattr(ff, prim)(v, n, ax, norm)), x, {}
    kw = {}
    if c["tp"]:
        kw["s"] = tuple(c["tp"])
    if c["s3"]:
        kw["axes"] = tuple(c["s3"])
    if norm is not None:
        kw["norm"] = norm
    return (lambda v: getattr(ff, prim)(v, **kw)), x, {}


# ----------------------------------------------------------------------------- points on a kink
def b_kink(c):
    prim, form, st = c["prim"], c["form"], c["st"]
    s = tuple(c["s"])
    x = data(s)
    if prim in ("max", "min", "amax", "amin"):
        flat = x.ravel().copy()
        ext = flat.max() + 0.5 if prim in ("max", "amax") else flat.min() - 0.2
        if st == "alltie":
            flat[:] = ext
        else:
            k = 2 if st == "tie2" else 3
            pos = [0, flat.size - 1, flat.size // 2][:min(k, flat.size)]
            flat[pos] = ext
        x = flat.reshape(s)
        ax = axis_arg(c["ax"])
        return (lambda v: getattr(np, prim)(v, axis=ax, keepdims=c["kd"])), x, {"kink": True}
    if prim in ("maximum", "minimum", "fmax", "fmin"):
        other = data(s, 0.4, 1.9, 5)
        me = other.copy()
        if st == "equal_some":
            m = me.ravel()
            m[1:] = data((m.size - 1,), 0.3, 2.7, 9)
            me = m.reshape(s)
        fn = getattr(np, prim)
        if c["argnum"] == 0:
            return (lambda v: fn(v, other)), me, {"kink": True}
        return (lambda v: fn(other, v)), me, {"kink": True}
    if prim in ("abs", "absolute", "fabs"):
        x = x - x.ravel()[0] if s else 0.0
        if s:
            x = onp.array(x)
            f = (lambda v: abs(v)) if form == "op" else (lambda v: getattr(np, prim)(v))
            return f, x, {"kink": True}
        return ((lambda v: abs(v)) if form == "op" else (lambda v: getattr(np, prim)(v))), 0.0, {"kink": True}
    if prim == "clip":
        lo, hi = 0.8, 2.0
        flat = x.ravel().copy()
        if st in ("at_lower", "at_both"):
            flat[0] = lo
        if st in ("at_upper", "at_both"):
            flat[-1] = hi
        x = flat.reshape(s)
        f = (lambda v: np.clip(v, lo, hi)) if form == "func" else (lambda v: v.clip(lo, hi))
        return f, x, {"kink": True}
    if prim == "power":
        flat = x.ravel().copy()
        flat[0] = 0.0
        x = flat.reshape(s)
        e = float(c["ia"])
        f = (lambda v: np.power(v, e)) if form == "func" else (lambda v: v ** e)
        return f, x, {"kink": True}
    raise Skip("no kink template for " + prim)


# ----------------------------------------------------------------------------- every float argument of multi-argument functions
def b_argsweep(c):
    prim, n = c["prim"], c["argnum"]
    s = tuple(c["s"])
    a = data(s, 0.3, 2.7, 0)
    b = data(s, 0.4, 1.9, 5)
    hi = data(s, 2.0, 3.0, 9)
    if not hasattr(onp, prim):
        raise Skip("not in this NumPy")
    fn = getattr(np, prim)
    if prim == "clip":
        args = [a, b, hi]           # some entries are clipped from below: the value genuinely depends on the bounds
    elif prim == "gradient":
        args = [a, onp.sort(b)]
    elif prim == "interp":
        args = [a, onp.sort(b) * 2.0, hi]
    elif prim in ("ldexp",):
        args = [a, onp.array([1, 2, 1, 2][:s[0]])]
    elif prim in ("percentile", "quantile"):
        args = [a, 30.0 if prim == "percentile" else 0.3]
    elif prim in ("searchsorted", "digitize"):
        args = [onp.sort(a), b] if prim == "searchsorted" else [a, onp.sort(b)]
    elif prim == "average":
        args = [a]
    else:
        args = [a, b]
    if n >= len(args) or not (isinstance(args[n], float) or (isinstance(args[n], onp.ndarray) and args[n].dtype.kind == "f")):
        raise Skip("not a float argument")
    kw = {"weights": b} if prim == "average" else {}

    def f(v):
        q = list(args)
        q[n] = v
        r = fn(*q, **kw)
        return r[0] if isinstance(r, tuple) else r
    return f, args[n], {}


# ----------------------------------------------------------------------------- adjoint helper primitives called directly
def b_helper(c):
    import autograd.numpy.numpy_vjps as V
    import autograd.numpy.fft as F
    prim, n = c["prim"], c["argnum"]
    sa, sb = tuple(c["s"]), tuple(c["s2"])
    if prim == "truncate_pad":
        x = data(sa)
        shape = tuple(c["tp"])
        if len(shape) != len(sa):
            raise Skip("rank mismatch")
        return (lambda v: F.truncate_pad(v, shape)), x, {}
    if prim == "make_diagonal":
        x = data(sa)
        a1, a2 = c["tp"]
        return (lambda v: np.make_diagonal(v, c["ia"], a1, a2)), x, {}
    A, B = data(sa, 0.3, 2.7, 0), data(sb, 0.4, 1.9, 5)
    if prim.startswith("dot_adjoint"):
        try:
            G = onp.dot(A, B)
        except Exception:
            raise Skip("dot undefined")
        G = data(onp.shape(G), 0.2, 1.2, 9) if onp.ndim(G) else 0.7
        metaA, metaB = np.metadata(A), np.metadata(B)
        if prim == "dot_adjoint_0":      # (B, G) -> adjoint of A |-> dot(A, B)
            fn, args = (lambda b, g: V.dot_adjoint_0(b, g, metaA, metaB)), [B, G]
        else:
            fn, args = (lambda a, g: V.dot_adjoint_1(a, g, metaA, metaB)), [A, G]
    else:
        axes = c["ia"]
        try:
            G = onp.tensordot(A, B, axes)
        except Exception:
            raise Skip("tensordot undefined")
        G = data(onp.shape(G), 0.2, 1.2, 9) if onp.ndim(G) else 0.7
        if prim == "tensordot_adjoint_0":
            fn, args = (lambda b, g: V.tensordot_adjoint_0(b, g, axes, onp.ndim(A), onp.ndim(B))), [B, G]
        else:
            fn, args = (lambda a, g: V.tensordot_adjoint_1(a, g, axes, onp.ndim(A), onp.ndim(B))), [A, G]
    x = args[n]
    if onp.ndim(x) == 0:
        x = onp.array(x)
    f = (lambda v: fn(v, args[1])) if n == 0 else (lambda v: fn(args[0], v))
    return f, x, {}


# ----------------------------------------------------------------------------- autograd.scipy
def sci(path):
    """'special.gammaln' -> the function, from autograd.scipy (or from scipy itself while `np` is bound to plain numpy: raw_value)"""
    import importlib
    mod, name = path.rsplit(".", 1)
    try:
        m = importlib.import_module(("scipy." if np is onp else "autograd.scipy.") + mod)
    except ImportError as ex:
        raise Skip("no scipy: " + str(ex)[:40])
    return getattr(m, name)


SCI_DOMAIN = {  # argument domains (lo, hi) per function, positional
    "special.erfinv": [(-0.8, 0.8)], "special.erfcinv": [(0.2, 1.8)], "special.logit": [(0.1, 0.9)],
    "special.betainc": [(0.5, 2.5), (0.5, 2.5), (0.1, 0.9)], "stats.beta.pdf": [(0.1, 0.9), (0.5, 2.5), (0.5, 2.5)],
    "stats.beta.logpdf": [(0.1, 0.9), (0.5, 2.5), (0.5, 2.5)], "stats.beta.cdf": [(0.1, 0.9), (0.5, 2.5), (0.5, 2.5)],
    "special.erf": [(-1.5, 1.5)], "special.erfc": [(-1.5, 1.5)], "special.expit": [(-2.0, 2.0)],
    "special.i0": [(-2.0, 2.0)], "special.i1": [(-2.0, 2.0)], "special.j0": [(-3.0, 3.0)], "special.j1": [(-3.0, 3.0)],
    "special.gammasgn": [(-2.9, 2.9)],
    "stats.norm.pdf": [(-1.5, 1.5), (-1.0, 1.0), (0.5, 2.0)], "stats.norm.cdf": [(-1.5, 1.5), (-1.0, 1.0), (0.5, 2.0)],
    "stats.norm.sf": [(-1.5, 1.5), (-1.0, 1.0), (0.5, 2.0)], "stats.norm.logpdf": [(-1.5, 1.5), (-1.0, 1.0), (0.5, 2.0)],
    "stats.norm.logcdf": [(-1.5, 1.5), (-1.0, 1.0), (0.5, 2.0)], "stats.norm.logsf": [(-1.5, 1.5), (-1.0, 1.0), (0.5, 2.0)],
}


def sci_data(prim, pos, shape, k):
    lo, hi = (SCI_DOMAIN.get(prim) or [])[pos:pos + 1] and SCI_DOMAIN[prim][pos] or (0.4, 2.6)
    return data(shape, lo, hi, k)


def b_scipy(c):
    prim, argnum, st = c["prim"], c["argnum"], c["st"]
    fn = sci(prim)
    s1, s2, s3 = tuple(c["s"]), tuple(c["s2"]), tuple(c["s3"])
    info = {}

    def pick(args, f):
        """f(*args) as a function of args[argnum]"""
        x = args[argnum]
        if onp.ndim(x) == 0:
            x = float(x) if c["id"] % 2 == 0 else onp.array(float(x))
        rest = list(args)

        def g(v):
            a = list(rest)
            a[argnum] = v
            return f(*a)
        return g, x, info
    base = prim.split(".")[-1]
    if prim in ("special.polygamma", "special.jn", "special.yn", "special.iv", "special.ive"):
        n = c["ia"]
        x = sci_data(prim, 0, s1, 0)
        if st == "neg":
            x = -x
        return (lambda v: fn(n, v)), (x if onp.ndim(x) else float(x)), info
    if prim == "special.multigammaln":
        d = c["ia"]
        x = data(s1, 1.6, 3.4, 0)          # a > (d - 1) / 2
        return (lambda v: fn(v, d)), (x if onp.ndim(x) else float(x)), info
    if prim == "special.logsumexp":
        x = data(s1, -1.0, 2.0, 0)
        ax = axis_arg(c["ax"])
        kw = {"axis": ax, "keepdims": c["kd"]}
        if st == "bscalar":
            kw["b"] = 1.75
        elif st == "b":
            kw["b"] = data(s1, 0.5, 1.5, 7)
        elif st == "bbroadcast":
            kw["b"] = data(s1[-1:], 0.5, 1.5, 7)
        return (lambda v: fn(v, **kw)), x, info
    if prim.startswith("stats.poisson."):
        k = onp.floor(data(s1, 0.0, 5.0, 0))
        mu = data(s2, 0.6, 3.0, 4)
        return pick([k, mu], lambda a, b: fn(a, b))
    if prim.startswith("stats.t."):
        x, df = data(s1, -1.5, 1.5, 0), data(s2, 1.5, 4.5, 3)
        loc, scale = data(s3, -1.0, 1.0, 6), data(s3, 0.5, 2.0, 9)
        if st == "kw":
            # loc / scale by keyword (the rules take them as defaulted parameters)
            if argnum >= 2:
                return pick([x, df, loc, scale], lambda a, b, l, sc: fn(a, b, loc=l, scale=sc))
            return pick([x, df], lambda a, b: fn(a, b, loc=loc, scale=scale))
        return pick([x, df, loc, scale], lambda a, b, l, sc: fn(a, b, l, sc))
    if prim.startswith("stats.dirichlet."):
        x = onp.array([0.2, 0.3, 0.5])
        alpha = data((3,), 0.6, 2.4, 2)
        if argnum == 0:
            raise Skip("points off the simplex are rejected by scipy: no finite-difference oracle for x")
        return pick([x, alpha], lambda a, b: fn(a, b))
    if prim.startswith("stats.multivariate_normal."):
        B = data((3, 3), -1.0, 1.0, 3)
        cov = B @ B.T + 1.5 * onp.eye(3)
        mean = data((3,), -1.0, 1.0, 5)
        sym = lambda m: (m + np.swapaxes(m, -1, -2)) / 2.0        # the density is a function of a symmetric matrix
        if base == "entropy":
            return pick([mean, cov], lambda m, cv: fn(m, sym(cv)))
        x = data(s1, -1.0, 1.0, 0)
        kw = {"allow_singular": True} if st == "singular" else {}
        return pick([x, mean, cov], lambda a, m, cv: fn(a, m, sym(cv), **kw))
    if prim == "linalg.sqrtm":
        B = data(s1, 0.2, 1.2, 1)
        A = B @ B.T + 2.0 * onp.eye(s1[0]) + 0.3 * data(s1, -1.0, 1.0, 8)
        return (lambda v: fn(v)), A, info
    if prim == "linalg.solve_triangular":
        lower = bool(c["kd"])
        full = data((3, 3), 0.5, 2.0, 1) + 2.0 * onp.eye(3)
        a = onp.tril(full) if lower else onp.triu(full)
        b = data(s2, -1.0, 1.0, 4)
        tr = c["ia"]
        if st == "overwrite":      # SciPy may reuse the forward right-hand side; nothing else may be written to
            kw = {"trans": tr, "lower": lower, "overwrite_b": True}
            if argnum == 1:
                raise Skip("overwrite_b with b itself differentiated: the caller asked for b to be overwritten")
            return pick([a, b], lambda u, v: fn(u, onp.array(v, copy=True), **kw))
        elif st == "unitdiag":
            raise Skip("unit_diagonal: the rule is for the general triangular solve (finite differences ignore the diagonal)")
        elif st == "str":
            kw = {"trans": "NTC"[tr], "lower": lower}
        elif st == "default":
            if tr:
                raise Skip("default trans")
            kw = {"lower": lower}
        else:
            kw = {"trans": tr, "lower": lower}
        return pick([a, b], lambda u, v: fn(u, v, **kw))
    if prim == "linalg.solve_sylvester":
        a = data(s1, 0.5, 2.0, 1) + 2.0 * onp.eye(s1[0])
        b = data(s2, 0.5, 2.0, 5) + 2.0 * onp.eye(s2[0])
        q = data(s3, -1.0, 1.0, 9)
        return pick([a, b, q], lambda u, v, w: fn(u, v, w))
    if prim == "linalg.solve_banded":
        l, u = c["tp"]
        ab = data(s1, 0.3, 1.2, 1)
        ab[u] = ab[u] + 3.0            # diagonally dominant
        b = data(s2, -1.0, 1.0, 4)
        return pick([(l, u), ab, b], lambda lu, m, v: fn(tuple(lu), m, v))
    if prim == "signal.convolve":
        A, B = data(s1, -1.0, 1.0, 0), data(s2, -1.0, 1.0, 6)
        kw = {"mode": st}
        lay = c["ia"]
        if lay == 1:
            kw.update(axes=([1], [1]), dot_axes=([0], [0]))
        elif lay == 2:
            kw.update(axes=([1], [0]))
        elif lay == 3:
            kw.update(axes=([0, 1], [0, 1]))
        elif lay == 4:
            kw.update(axes=([1], [1]))
        elif lay == 5:
            kw.update(axes=([3], [2]), dot_axes=([1, 2], [0, 1]))
        elif lay == 6:
            kw.update(axes=([2], [1]))
        if np is onp:
            raise Skip("autograd's convolve is its own function (tensor convolution with dot axes), not scipy.signal.convolve")
        return pick([A, B], lambda u, v: fn(u, v, **kw))
    # elementwise functions of 1, 2 or 3 broadcast arguments
    nargs = 1 if prim in ("special.gammaln", "special.gamma", "special.rgamma", "special.psi", "special.digamma", "special.erf", "special.erfc",
                          "special.erfinv", "special.erfcinv", "special.logit", "special.expit", "special.i0", "special.i1", "special.j0",
                          "special.j1", "special.y0", "special.y1", "special.gammasgn") else (3 if s3 != () or prim in (
                              "special.betainc", "stats.beta.pdf", "stats.beta.logpdf", "stats.beta.cdf") or prim.startswith("stats.norm.") else 2)
    shapes = [s1, s2, s3][:nargs]
    args = [sci_data(prim, i, sh, 3 * i) for i, sh in enumerate(shapes)]
    if st in ("lotail", "hitail"):       # (x - loc) / scale beyond 40 standard deviations
        args = [data(s1, 50.0, 60.0, 0) * (-1.0 if st == "lotail" else 1.0), data(s2, -1.0, 1.0, 3), data(s3, 0.8, 1.2, 6)]
    if nargs == 1:
        x = args[0]
        return (lambda v: fn(v)), (x if onp.ndim(x) else (float(x) if c["id"] % 2 == 0 else onp.array(float(x)))), info
    return pick(args, lambda *a: fn(*a))


BUILDERS = {"scipy": b_scipy, "seltuple": b_seltuple, "single": b_single, "empty": b_empty, "mixorder": b_mixorder, "realinto": b_realinto, "special": b_special, "extend": b_extend, "helper": b_helper, "argsweep": b_argsweep, "kink": b_kink, "linalg": b_linalg, "fft": b_fft, "index": b_index, "join": b_join, "contract": b_contract, "rearr": b_rearr, "binary": b_binary, "where": b_where, "reduce": b_reduce, "cum": b_cum, "unary": b_unary}
