"""C18: the bundled gradient checker on correct and deliberately defective rules.

usage: checker_replay.py <jobs.json> <rows.ndjson>     job = {"id", "kind": "paths"|"correct"|"defect", ...}
"""
import json
import sys
import warnings

import numpy as onp

import autograd.numpy as np
import autograd.test_util as tu
from autograd.extend import primitive, defvjp, defjvp
from autograd.wrap_util import get_name

warnings.simplefilter("ignore")


def _nanify(v):
    e = onp.zeros(onp.shape(v))
    e[(0,) * onp.ndim(v)] = onp.nan
    return v + e


# ----------------------------------------------------------------------------- primitives with planted defects
def make_prim(arg_kind, defect, where):
    """f with correct forward value; `defect` planted in the rule of `where` in {"rev", "fwd", "rev2", "fwd2", None}
    ("rev2"/"fwd2": only the derivative of the rule itself is wrong, visible at order 2)."""
    if arg_kind == "matrix":
        A = onp.array([[1.0, 2.0, -1.0], [0.5, -1.5, 2.0], [2.0, 0.3, 1.0]])

        @primitive
        def f(x):
            return onp.dot(A, x) if not hasattr(x, "_value") else None

        def good_vjp(g):
            return np.dot(A.T, g)

        def good_jvp(g):
            return np.dot(A, g)
        bad = {"factor": lambda v: 1.01 * v, "sign": lambda v: -v, "entry": lambda v: v + onp.eye(3)[0][:, None] * 0.5 * onp.ones(v.shape) if v.ndim == 2 else v + 0.5 * onp.eye(3)[0],
               "nan": lambda v: v + (onp.eye(3)[0][:, None] * onp.ones(v.shape) if v.ndim == 2 else onp.eye(3)[0]) * onp.where(onp.eye(3)[0][:, None] * onp.ones(v.shape) if v.ndim == 2 else onp.eye(3)[0], onp.nan, 0.0) if False else _nanify(v)}
        if defect == "transpose":
            vj = (lambda g: np.dot(A, g)) if where == "rev" else good_vjp
            jv = (lambda g: np.dot(A.T, g)) if where == "fwd" else good_jvp
        else:
            d = bad.get(defect, lambda v: v)
            vj = (lambda g: d(good_vjp(g))) if where == "rev" else good_vjp
            jv = (lambda g: d(good_jvp(g))) if where == "fwd" else good_jvp
        defvjp(f, lambda ans, x: vj)
        defjvp(f, lambda g, ans, x: jv(g))
        return f
    # elementwise  f(x) = x * sin(x)   (works for scalars, real and complex arrays); f'(x) = sin x + x cos x

    @primitive
    def helper(g, x):                      # the first-order rule as a primitive of its own: g * f'(x)
        return g * (onp.sin(x) + x * onp.cos(x))
    fac = 1.01 if defect == "factor" else (-1.0 if defect == "sign" else 1.0)

    def hx_vjp(ans, g, x):                 # d helper / dx = g * (2 cos x - x sin x)
        s = fac if where in ("rev2",) else 1.0
        return lambda gg: s * gg * g * (2 * np.cos(x) - x * np.sin(x))

    def hx_jvp(gg, ans, g, x):
        s = fac if where in ("fwd2",) else 1.0
        return s * gg * g * (2 * np.cos(x) - x * np.sin(x))
    defvjp(helper, lambda ans, g, x: lambda gg: gg * (np.sin(x) + x * np.cos(x)), hx_vjp)
    defjvp(helper, lambda gg, ans, g, x: gg * (np.sin(x) + x * np.cos(x)), hx_jvp)

    @primitive
    def f(x):
        return x * onp.sin(x)

    def corrupt(v):
        if defect == "factor":
            return 1.01 * v
        if defect == "sign":
            return -v
        if defect == "entry":
            e = onp.zeros(onp.shape(v)) if onp.ndim(v) else 0.0
            if onp.ndim(v):
                e[(0,) * onp.ndim(v)] = 0.5
            else:
                e = 0.5
            return v + e
        if defect == "conj":
            return np.conj(v)
        if defect in ("nan", "inf"):
            # the rule is right except that one entry is not a finite number (an un-simplified 0/0, an overflow)
            bad = onp.nan if defect == "nan" else onp.inf
            e = onp.zeros(onp.shape(v)) if onp.ndim(v) else 0.0
            if onp.ndim(v):
                e[(0,) * onp.ndim(v)] = bad
            else:
                e = bad
            return v + e
        return v
    # for a holomorphic f the documented convention conj(J_R^T conj(g)) is simply g * f'(x)
    defvjp(f, lambda ans, x: (lambda g: corrupt(helper(g, x))) if where == "rev" else (lambda g: helper(g, x)))
    defjvp(f, lambda g, ans, x: corrupt(helper(g, x)) if where == "fwd" else helper(g, x))
    return f


def argument(arg_kind, seed):
    rs = onp.random.RandomState(1000 + seed)
    if arg_kind == "scalar":
        return float(rs.uniform(0.5, 1.5))
    if arg_kind == "array":
        return rs.uniform(0.5, 1.5, 3)
    if arg_kind == "complex":
        return rs.uniform(0.5, 1.5, 3) + 1j * rs.uniform(0.5, 1.5, 3)
    if arg_kind == "matrix":
        return rs.uniform(0.5, 1.5, (3, 2))
    if arg_kind in ("outtuple", "outlist", "outdict"):
        return rs.uniform(0.5, 1.5, 3)
    if arg_kind == "container":
        return (rs.uniform(0.5, 1.5, 2), {"k": float(rs.uniform(0.5, 1.5))})
    raise ValueError(arg_kind)


def function(arg_kind, f):
    # container-valued OUTPUT whose first element comes from a correct built-in rule: the planted defect sits in a later element only
    if arg_kind == "outtuple":
        from autograd.builtins import tuple as atuple
        return lambda x: atuple((np.cos(x), f(x)))
    if arg_kind == "outlist":
        from autograd.builtins import list as alist
        return lambda x: alist([np.cos(x), np.exp(x), f(x)])
    if arg_kind == "outdict":
        from autograd.builtins import dict as adict
        return lambda x: adict({"a": np.cos(x), "b": f(x)})
    if arg_kind == "container":
        from autograd.builtins import tuple as atuple
        return lambda c: atuple((f(c[0]), f(c[1]["k"]) * 2.0))
    return f


def verdict_job(job):
    f = function(job["arg"], make_prim(job["arg"], job.get("defect"), job.get("where")))
    rejected = 0
    errors = []
    mode = job["mode"]
    order = 2 if (job.get("where") or "").endswith("2") else job.get("order", 1)
    for s in range(job["n"]):
        onp.random.seed(job["id"] * 1000 + s)
        x = argument(job["arg"], s)
        try:
            tu.check_grads(f, modes=[mode], order=order)(x)
        except AssertionError:
            rejected += 1
        except Exception as ex:     # noqa
            errors.append(type(ex).__name__ + ": " + str(ex)[:80])
            rejected += 1
    return {"id": job["id"], "kind": job["kind"], "arg": job["arg"], "defect": job.get("defect") or "-", "where": job.get("where") or "-",
            "mode": mode, "order": order, "n": job["n"], "rejected": rejected, "errors": sorted(set(errors))[:3]}


def paths_job(job):
    """which numerical comparisons does check_grads(f, modes, order) perform?  (passive probes on check_vjp / check_jvp)"""
    log = []
    ov, oj = tu.check_vjp, tu.check_jvp

    def pv(f, x):
        log.append({"mode": "rev", "name": [p for p in get_name(f).split("_")[:-1]]})
        return ov(f, x)

    def pj(f, x):
        log.append({"mode": "fwd", "name": [p for p in get_name(f).split("_")[:-1]]})
        return oj(f, x)
    if job.get("pre"):
        # history: an earlier check_grads call with DEFAULT arguments on a primitive that has no forward-mode rule (it raises
        # NotImplementedError, which the caller handles) must not change what later default-argument calls check
        @primitive
        def nojvp(x):
            return x * x
        defvjp(nojvp, lambda ans, x: lambda g: 2 * x * g)
        for _ in range(2):
            try:
                tu.check_grads(nojvp)(onp.array([0.4, 1.3]))
            except Exception:     # noqa
                pass
    tu.check_vjp, tu.check_jvp = pv, pj
    try:
        def f(x):
            return np.sin(x) * x
        onp.random.seed(job["id"])
        if job.get("default"):
            tu.check_grads(f, order=job["order"])(onp.array([0.7, 1.1]))          # modes left to the default
        else:
            tu.check_grads(f, modes=job["modes"], order=job["order"])(onp.array([0.7, 1.1]))
        err = ""
    except Exception as ex:     # noqa
        err = type(ex).__name__ + ": " + str(ex)[:100]
    finally:
        tu.check_vjp, tu.check_jvp = ov, oj
    return {"id": job["id"], "kind": "paths", "modes": job["modes"], "order": job["order"], "checks": log, "err": err,
            "n": 1, "rejected": 0}


def main():
    jobs = json.load(open(sys.argv[1]))
    with open(sys.argv[2], "w") as fh:
        for j in jobs:
            r = paths_job(j) if j["kind"] == "paths" else verdict_job(j)
            fh.write(json.dumps(r) + "\n")


if __name__ == "__main__":
    main()
