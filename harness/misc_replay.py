"""autograd.misc on the real code: the optimizers (sgd, rmsprop, adam through unflatten_optimizer) and the fixed_point primitive.

usage: misc_replay.py <cases.json> <obs.ndjson>
case: {"id", "kind": "opt", "opt", "x0", "iters"} | {"id", "kind": "fp", "map", "arg", "nest"}
The observations are judged by spec/trace/TraceMisc.tla (clauses Ownership for C10, NestedExact for C08 / C07).
"""
import json
import sys
import warnings

import numpy as onp

import autograd.numpy as np
from autograd import grad, make_vjp, make_jvp, elementwise_grad
from autograd.misc import flatten
from autograd.misc.fixed_points import fixed_point
from autograd.misc import optimizers
from autograd.tracer import isbox

warnings.simplefilter("ignore")


# ----------------------------------------------------------------------------- optimizers
def make_x0(kind):
    base = onp.array([1.5, -0.5, 2.0, 0.25, -1.25, 0.75])
    if kind == "vec":
        return base.copy()
    if kind == "mat":
        return base.reshape(2, 3).copy()
    if kind == "matF":
        return onp.asfortranarray(base.reshape(2, 3))
    if kind == "view":
        return onp.concatenate([base, base])[::2].copy()[:6]
    if kind == "scalar":
        return 1.5
    if kind == "list":
        return [base[:2].copy(), base[2:].reshape(2, 2).copy()]
    if kind == "dict":
        return {"w": base[:4].reshape(2, 2).copy(), "b": float(base[4]), "c": base[5:].copy()}
    raise ValueError(kind)


def leaves(v):
    if isinstance(v, dict):
        return [q for k in sorted(v) for q in leaves(v[k])]
    if isinstance(v, (list, tuple)):
        return [q for e in v for q in leaves(e)]
    return [v]


def flat(v):
    return onp.concatenate([onp.ravel(onp.asarray(l, dtype=float)) for l in leaves(v)])


def reference(opt, x, gradfun, iters):
    """plain-NumPy transcription of the three update rules on the flat vector"""
    x = x.copy()
    if opt == "sgd":
        vel = onp.zeros(len(x))
        for i in range(iters):
            g = gradfun(x, i)
            vel = 0.9 * vel - 0.1 * g
            x = x + 0.1 * vel
    elif opt == "rmsprop":
        avg = onp.ones(len(x))
        for i in range(iters):
            g = gradfun(x, i)
            avg = avg * 0.9 + g ** 2 * 0.1
            x = x - 0.1 * g / (onp.sqrt(avg) + 1e-8)
    else:
        m, v = onp.zeros(len(x)), onp.zeros(len(x))
        for i in range(iters):
            g = gradfun(x, i)
            m = 0.1 * g + 0.9 * m
            v = 0.001 * g ** 2 + 0.999 * v
            x = x - 0.001 * (m / (1 - 0.9 ** (i + 1))) / (onp.sqrt(v / (1 - 0.999 ** (i + 1))) + 1e-8)
    return x


def run_opt(case):
    o = {"id": case["id"], "kind": "opt", "opt": case["opt"], "x0": case["x0"], "iters": case["iters"], "err": "",
         "value_ok": False, "x0_intact": False, "cb_intact": False, "no_alias": False, "struct_ok": False}
    try:
        x0 = make_x0(case["x0"])
        snap = flat(x0).copy()
        target = onp.linspace(-1.0, 1.0, snap.size)

        def loss(params, i):
            return np.sum((flatten(params)[0] - target) ** 2) * (1.0 + 0.1 * i)
        g = grad(loss)
        seen = []

        def cb(params, i, gr):
            seen.append((params, flat(params).copy(), gr, flat(gr).copy()))
        res = getattr(optimizers, case["opt"])(g, x0, callback=cb, num_iters=case["iters"])
        want = reference(case["opt"], snap, lambda x, i: 2.0 * (x - target) * (1.0 + 0.1 * i), case["iters"])
        o["value_ok"] = bool(flat(res).shape == want.shape and onp.allclose(flat(res), want, rtol=1e-12, atol=1e-14))
        o["struct_ok"] = bool(type(res) is type(x0) or (isinstance(x0, float) and onp.ndim(res) == 0))
        o["x0_intact"] = bool(onp.array_equal(flat(x0), snap))
        # what the callback was handed earlier is the caller's: it does not change afterwards
        o["cb_intact"] = bool(all(onp.array_equal(flat(p), ps) and onp.array_equal(flat(q), qs) for p, ps, q, qs in seen))
        o["no_alias"] = bool(not any(isinstance(a, onp.ndarray) and isinstance(b, onp.ndarray) and onp.shares_memory(a, b)
                                     for a in leaves(res) for b in leaves(x0)))
        o["ncb"] = len(seen)
    except Exception as ex:     # noqa
        o["err"] = type(ex).__name__ + ": " + str(ex)[:160]
    return o


# ----------------------------------------------------------------------------- fixed_point
MAPS = {
    # iteration maps whose fixed point is sqrt(a); the derivative of the map with respect to x depends on a
    "newton": lambda a: lambda x: 0.5 * (x + a / x),
    "damped": lambda a: lambda x: x - 0.1 * a * (x ** 2 - a) / (1.0 + a),
    "plain": lambda a: lambda x: x - 0.2 * (x ** 2 - a),
}


def sqrt_fp(mapname):
    def s(a):
        dist = lambda x, y: np.max(np.abs(x - y))
        return fixed_point(MAPS[mapname], a, np.ones(np.shape(a)) * 1.0 if np.ndim(a) else 1.0, dist, 1e-13)
    return s


def run_fp(case):
    o = {"id": case["id"], "kind": "fp", "map": case["map"], "arg": case["arg"], "err": "", "value_ok": False, "d1_ok": False, "d2_ok": False,
         "d3_ok": False, "closure_ok": False, "fwd_over_ok": False, "nobox": True}
    try:
        s = sqrt_fp(case["map"])
        if case["arg"] == "scalar":
            a = 1.7
            S = s
        else:
            a = onp.array([1.7, 0.9, 2.3])
            w = onp.array([1.0, -2.0, 0.5])
            S = lambda v: np.sum(w * s(v))
        close = lambda x, y: bool(not isbox(x) and onp.shape(x) == onp.shape(y) and onp.allclose(onp.asarray(x, dtype=float), y, rtol=1e-7, atol=1e-9))
        if case["arg"] == "scalar":
            v0, d1, d2, d3 = a ** 0.5, 0.5 * a ** -0.5, -0.25 * a ** -1.5, 0.375 * a ** -2.5
            o["value_ok"] = close(s(a), v0)
            g1 = grad(S)
            g2 = grad(g1)
            r1, r2 = g1(a), g2(a)
            o["nobox"] = not (isbox(r1) or isbox(r2))
            o["d1_ok"], o["d2_ok"] = close(r1, d1), close(r2, d2)
            r3 = grad(g2)(a)
            o["nobox"] = o["nobox"] and not isbox(r3)
            o["d3_ok"] = close(r3, d3)
            # the inner derivative closes over the outer variable:  d/da [ a * d/db sqrt(a b) |_{b=1} ] = d/da [ a * sqrt(a) / 2 ] = 0.75 sqrt(a)
            outer = lambda aa: aa * grad(lambda b: s(aa * b))(1.0)
            rc = grad(outer)(a)
            o["closure_ok"] = close(rc, 0.75 * a ** 0.5)
            # forward over reverse
            try:
                o["fwd_over_ok"] = close(make_jvp(g1)(a)(1.0)[1], d2)
            except NotImplementedError:
                o["fwd_over_ok"] = True         # no forward-mode rule: loud
        else:
            o["value_ok"] = close(s(a), a ** 0.5)
            g1 = grad(S)
            r1 = g1(a)
            o["d1_ok"] = close(r1, w * 0.5 * a ** -0.5)
            r2 = grad(lambda v: np.sum(g1(v) * w))(a)
            o["d2_ok"] = close(r2, -0.25 * w * w * a ** -1.5)
            r3 = grad(lambda u: np.sum(grad(lambda v: np.sum(g1(v) * w))(u)))(a)
            o["d3_ok"] = close(r3, 0.375 * w * w * a ** -2.5)
            o["nobox"] = not (isbox(r1) or isbox(r2) or isbox(r3))
            outer = lambda aa: np.sum(aa * elementwise_grad(lambda b: s(aa * b))(onp.ones(3)))
            o["closure_ok"] = close(grad(outer)(a), 0.75 * a ** 0.5)
            try:
                o["fwd_over_ok"] = close(make_jvp(g1)(a)(onp.ones(3))[1], -0.25 * w * a ** -1.5)
            except NotImplementedError:
                o["fwd_over_ok"] = True
    except Exception as ex:     # noqa
        o["err"] = type(ex).__name__ + ": " + str(ex)[:160]
    return o


def main():
    cases = json.load(open(sys.argv[1]))
    with open(sys.argv[2], "w") as out:
        for c in cases:
            out.write(json.dumps(run_opt(c) if c["kind"] == "opt" else run_fp(c)) + "\n")


if __name__ == "__main__":
    main()
