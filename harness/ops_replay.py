"""Replay of Operators.tla cases: every differential operator of the autograd package on a function given by integer tensors.

usage: ops_replay.py <cases.json> <obs.ndjson>
"""
import json
import sys
import warnings

import numpy as onp

import autograd
import autograd.numpy as np
from autograd import (jacobian, grad, elementwise_grad, hessian, hessian_vector_product, hessian_tensor_product, tensor_jacobian_product,
                      vector_jacobian_product, make_ggnvp, deriv, make_jvp, value_and_grad, grad_and_aux, make_vjp, holomorphic_grad,
                      grad_named, make_hvp)
from autograd.differential_operators import make_jvp_reversemode
from autograd.tracer import isbox

warnings.simplefilter("ignore")


def size(s):
    return int(onp.prod(s)) if s else 1


def tensors(n, m):
    A = onp.array([[((3 * k + 2 * i) % 5) - 2 for i in range(1, n + 1)] for k in range(1, m + 1)], dtype=float)
    B = onp.array([[[((k + 2 * i + 3 * j) % 3) - 1 for j in range(1, n + 1)] for i in range(1, n + 1)] for k in range(1, m + 1)], dtype=float)
    return A, B


def make_f(ins, outs, lay):
    n, m = size(ins), size(outs)
    A, B = tensors(n, m)
    pos = lay["pos"]

    def f(*args, **kw):
        x = args[pos]
        others = [a for q, a in enumerate(args) if q != pos]
        sc = kw.get("scale", 1.0)
        xf = np.reshape(x, (n,))
        y = sc * (np.dot(A, xf) + np.einsum("kij,i,j->k", B, xf, xf))
        y = np.reshape(y, tuple(outs)) if outs else y[0]
        for o in others:
            y = y + o
        return y
    return f


def run(case):
    op, ins, outs, lay, scale = case["op"], case["ins"], case["outs"], case["lay"], case["scale"]
    n, m = size(ins), size(outs)
    o = {"id": case["id"], "op": op, "ins": ins, "outs": outs, "lay": lay, "scale": scale, "err": "", "shape": [-1], "flat": [], "extra_ok": True}
    x = onp.arange(2, n + 2, dtype=float).reshape(ins) if ins else 2.0
    vin = onp.array([((2 * i) % 3) - 1 for i in range(1, n + 1)], dtype=float).reshape(ins) if ins else float(((2 * 1) % 3) - 1)
    vout = onp.array([((2 * i) % 3) - 1 for i in range(1, m + 1)], dtype=float).reshape(outs) if outs else float(((2 * 1) % 3) - 1)
    if isinstance(x, onp.ndarray):
        x.flags.writeable = False
    pos, npos = lay["pos"], lay["npos"]
    an = pos - npos if lay.get("neg") else pos          # the argnum handed to the operator (negative: counted from the end)
    args = [0.5 + q for q in range(npos)]
    args[pos] = x
    kw = {"scale": float(scale)} if lay["kw"] else {}
    f = make_f(ins, outs, lay)
    plain = f(*args, **kw)
    try:
        if op == "jacobian":
            r = jacobian(f, an)(*args, **kw)
        elif op == "jacobian_of_jacobian":
            r = jacobian(jacobian(f, an), an)(*args, **kw)
        elif op == "grad":
            r = grad(f, an)(*args, **kw)
        elif op == "holomorphic_grad":
            r = holomorphic_grad(f, an)(*args, **kw)
        elif op == "elementwise_grad":
            r = elementwise_grad(f, an)(*args, **kw)
        elif op == "hessian":
            r = hessian(f, an)(*args, **kw)
        elif op == "hessian_vector_product":
            r = hessian_vector_product(f, pos)(*(args + [vin]), **kw)
        elif op == "hessian_tensor_product":
            r = hessian_tensor_product(f, pos)(*(args + [vin]), **kw)
        elif op == "make_hvp":
            hvp, g0 = make_hvp(f, an)(*args, **kw)
            r = hvp(vin)
            o["extra_ok"] = bool(onp.allclose(g0, grad(f, pos)(*args, **kw)))
        elif op == "tensor_jacobian_product":
            r = tensor_jacobian_product(f, pos)(*(args + [vout]), **kw)
        elif op == "vector_jacobian_product":
            r = vector_jacobian_product(f, pos)(*(args + [vout]), **kw)
        elif op == "make_vjp":
            vjp, val = make_vjp(f, an)(*args, **kw)
            r = vjp(vout)
            o["extra_ok"] = bool(not isbox(val) and onp.array_equal(val, plain) and onp.shape(val) == onp.shape(plain) and type(val) is type(plain))
        elif op == "make_ggnvp":
            r = make_ggnvp(f, f_argnum=pos)(*args, **kw)(vin)
        elif op == "deriv":
            r = deriv(f, an)(*args, **kw)
        elif op == "make_jvp":
            val, r = make_jvp(f, an)(*args, **kw)(vin)
            o["extra_ok"] = bool(not isbox(val) and onp.array_equal(val, plain) and onp.shape(val) == onp.shape(plain) and type(val) is type(plain))
        elif op == "make_jvp_reversemode":
            r = make_jvp_reversemode(f, an)(*args, **kw)(vin)
        elif op == "value_and_grad":
            val, r = value_and_grad(f, an)(*args, **kw)
            # the value is the plain call's value: same entries, same shape, same type (np.float64 stays np.float64, (1,1) stays (1,1))
            o["extra_ok"] = bool(not isbox(val) and onp.array_equal(val, plain) and onp.shape(val) == onp.shape(plain) and type(val) is type(plain))
        elif op == "grad_and_aux":
            aux_obj = {"tag": onp.array([1.0, 2.0, 3.0]), "n": 3.5}
            r, aux = grad_and_aux(lambda *a, **k: (f(*a, **k), aux_obj), an)(*args, **kw)
            o["extra_ok"] = bool(isinstance(aux, dict) and set(aux) == {"tag", "n"} and not isbox(aux["tag"]) and not isbox(aux["n"])
                                 and onp.array_equal(aux["tag"], [1.0, 2.0, 3.0]) and aux["n"] == 3.5)
        elif op == "jac_thru_aux":
            inner = grad_and_aux(lambda *a, **k: (np.sum(f(*a, **k)), f(*a, **k)), pos)
            r = jacobian(lambda *a, **k: inner(*a, **k)[1], pos)(*args, **kw)
        elif op == "jvp_thru_aux":
            inner = grad_and_aux(lambda *a, **k: (np.sum(f(*a, **k)), f(*a, **k)), pos)
            r = make_jvp(lambda *a, **k: inner(*a, **k)[1], pos)(*args, **kw)(vin)[1]
        elif op == "grad_thru_aux_and_grad":
            inner = grad_and_aux(lambda *a, **k: (f(*a, **k), f(*a, **k)), pos)

            def loss(*a, **k):
                g_, aux_ = inner(*a, **k)
                return np.sum(g_ * vin) + 2.0 * aux_
            r = grad(loss, pos)(*args, **kw)
        elif op == "jac_thru_value":
            r = jacobian(lambda *a, **k: value_and_grad(f, pos)(*a, **k)[0], pos)(*args, **kw)
        elif op == "jac_thru_vjp_primal":
            r = jacobian(lambda *a, **k: make_vjp(f, pos)(*a, **k)[1], pos)(*args, **kw)
        elif op == "jvp_thru_jvp_primal":
            r = make_jvp(lambda *a, **k: make_jvp(f, pos)(*a, **k)(vin)[0], pos)(*args, **kw)(vin)[1]
        elif op == "grad_named":
            names = ["a0", "a1", "a2"][:npos]
            src = "def named(%s, scale=1.0):\n    return f(%s, scale=scale)\n" % (", ".join(names), ", ".join(names))
            env = {"f": f}
            exec(src, env)
            r = grad_named(env["named"], names[pos])(*args, **kw)
        elif op == "multigrad_dict":
            from autograd import multigrad_dict
            names = ["a0", "a1", "a2"][:npos]
            src = "def named(%s, scale=1.0):\n    return f(%s, scale=scale)\n" % (", ".join(names), ", ".join(names))
            env = {"f": f}
            exec(src, env)
            r = multigrad_dict(env["named"])(*args, **kw)[names[pos]]
        elif op in ("grad_tuple", "grad_list", "value_and_grad_tuple", "make_vjp_tuple"):
            # container-valued argnum: x at position pos and a second array y appended as a further positional argument
            yv = onp.array([0.5, 1.5])
            cvec = onp.array([3.0, -2.0])
            f2 = lambda *a, **k: f(*a[:-1], **k) + np.dot(cvec, a[-1])
            args2 = args + [yv]
            an = (pos, npos) if op != "grad_list" else [pos, npos]
            if op in ("grad_tuple", "grad_list"):
                res = grad(f2, an)(*args2, **kw)
            elif op == "value_and_grad_tuple":
                val, res = value_and_grad(f2, an)(*args2, **kw)
                o["extra_ok"] = bool(not isbox(val) and onp.allclose(val, f2(*args2, **kw)))
            else:
                vjp, val = make_vjp(f2, an)(*args2, **kw)
                res = vjp(1.0)
            ok_struct = isinstance(res, tuple) and len(res) == 2 and onp.shape(res[0]) == tuple(ins) and onp.shape(res[1]) == (2,)
            o["extra_ok"] = bool(o["extra_ok"] and ok_struct)
            r = onp.concatenate([onp.ravel(res[0]), onp.ravel(res[1])]) if ok_struct else onp.array([-99999.0])
        else:
            o["err"] = "no template"
            return o
        if isbox(r):
            o["err"] = "tracer returned"
            return o
        a = onp.asarray(r, dtype=float)
        o["shape"] = list(a.shape)
        fl = a.ravel()
        if not onp.all(fl == onp.round(fl)):
            o["err"] = "non-integer result %r" % fl[:4].tolist()
            return o
        o["flat"] = [int(v) for v in fl]
    except ImportError as ex:
        o["err"] = "skip:" + str(ex)[:80]
    except Exception as ex:     # noqa
        o["err"] = type(ex).__name__ + ": " + str(ex)[:160]
    return o


def main():
    cases = json.load(open(sys.argv[1]))
    with open(sys.argv[2], "w") as fh:
        for c in cases:
            fh.write(json.dumps(run(c)) + "\n")


if __name__ == "__main__":
    main()
