"""Replay of VSpaceAlg cases on the real autograd vector spaces.

usage: vs_replay.py <cases.json> <obs.ndjson>
A case is {"id", "sp": space tree, "x", "y", "z": flat vectors of [re, im], "a", "b"}.
"""
import json
import sys
import warnings

import numpy as onp

from autograd.extend import vspace
from autograd.builtins import tuple as atuple, list as alist, dict as adict

warnings.simplefilter("ignore")
NPDT = {"float64": onp.float64, "float32": onp.float32, "float16": onp.float16, "longdouble": onp.longdouble,
        "complex128": onp.complex128, "complex64": onp.complex64}


REVERSE_DICTS = [False]      # build dict values with reversed key insertion order (same space, same vector)


NAMED = [None]      # the named-tuple type (numpy.linalg's EigResult, EighResult, QRResult, SlogdetResult, SVDResult) the ROOT tuple is built as
ROOT = [None]


def pos_is_root(sp):
    return sp is ROOT[0]


def named_types():
    out = []
    try:
        from numpy.linalg import _linalg as L
        for nm in ("EigResult", "EighResult", "QRResult", "SlogdetResult", "SVDResult"):
            if hasattr(L, nm):
                out.append(getattr(L, nm))
    except Exception:     # noqa
        pass
    return out


LAYOUT = ["C"]      # memory layout of the >= 2-D array leaves built next: the vector-space operations must not depend on it


def build(sp, flat, pos=0):
    """(space tree, flat vector) -> real value; returns (value, next position)"""
    k = sp["k"]
    if k == "arr":
        n = int(onp.prod(sp["shape"])) if sp["shape"] else 1
        ent = flat[pos:pos + n]
        dt = sp["dt"]
        if dt == "pyfloat":
            return float(ent[0][0]), pos + n
        if dt == "pycomplex":
            return complex(ent[0][0], ent[0][1]), pos + n
        if dt == "npfloat64scalar":
            return onp.float64(ent[0][0]), pos + n
        cplx = dt.startswith("complex")
        vals = [complex(e[0], e[1]) if cplx else float(e[0]) for e in ent]
        arr = onp.array(vals, dtype=NPDT[dt]).reshape(sp["shape"])
        if arr.ndim >= 2 and LAYOUT[0] == "F":
            arr = onp.asfortranarray(arr)                      # same entries, column-major memory
        elif arr.ndim >= 2 and LAYOUT[0] == "T":
            arr = onp.ascontiguousarray(arr.T).T               # a transposed view of a C-ordered buffer
        return arr, pos + n
    items = []
    for c in sp["items"]:
        v, pos = build(c, flat, pos)
        items.append(v)
    if k == "tuple":
        if NAMED[0] is not None and pos_is_root(sp) and len(items) == len(NAMED[0]._fields):
            return NAMED[0](*items), pos       # one of numpy.linalg's named-tuple result types: a tuple space of its own type
        return tuple(items), pos
    if k == "list":
        return list(items), pos
    pairs = list(zip(sp["keys"], items))
    if REVERSE_DICTS[0]:
        pairs = pairs[::-1]
    return dict(pairs), pos


def flatten(sp, v):
    """real value -> flat list of [re, im]; also checks that the value has the structure of the space"""
    k = sp["k"]
    if k == "arr":
        a = onp.asarray(v)
        want = tuple(sp["shape"])
        if a.shape != want:
            raise ValueError("shape %s instead of %s" % (a.shape, want))
        cplx = sp["dt"] in ("complex128", "complex64", "pycomplex")
        if onp.iscomplexobj(a) != cplx:
            raise ValueError("kind %s in a %s slot" % (a.dtype, sp["dt"]))
        out = []
        for e in a.ravel():
            re, im = float(onp.real(e)), float(onp.imag(e))
            if re != int(re) or im != int(im):
                raise ValueError("non-integer entry %r" % e)
            out.append([int(re), int(im)])
        return out
    if k in ("tuple", "list"):
        if not isinstance(v, (tuple, list)) or len(v) != len(sp["items"]):
            raise ValueError("sequence structure")
        if (k == "tuple") != isinstance(v, tuple):
            raise ValueError("tuple/list kind")
        out = []
        for c, x in zip(sp["items"], v):
            out += flatten(c, x)
        return out
    if not isinstance(v, dict) or sorted(v.keys()) != sorted(sp["keys"]):
        raise ValueError("dict structure")
    out = []
    for key, c in zip(sp["keys"], sp["items"]):
        out += flatten(c, v[key])
    return out


def leaves(v):
    if isinstance(v, onp.ndarray):
        return [v]
    if isinstance(v, (tuple, list)):
        return [l for x in v for l in leaves(x)]
    if isinstance(v, dict):
        return [l for x in v.values() for l in leaves(x)]
    return []


def neighbours(sp):
    """structurally different spaces close to sp (and one equal copy)"""
    out = [json.loads(json.dumps(sp))]

    def first_leaf(t):
        if t["k"] == "arr":
            return t
        for c in t["items"]:
            r = first_leaf(c)
            if r is not None:
                return r
        return None
    for mod in ("dtype", "shape", "kind", "keys", "extra"):
        t = json.loads(json.dumps(sp))
        lf = first_leaf(t)
        if mod == "dtype" and lf is not None:
            lf["dt"] = {"float64": "float32", "float32": "float64", "float16": "float32", "longdouble": "float64", "complex128": "complex64",
                        "complex64": "complex128", "pyfloat": "pycomplex", "pycomplex": "pyfloat", "npfloat64scalar": "float32"}[lf["dt"]]
            if lf["dt"] in ("pyfloat", "pycomplex") and lf["shape"]:
                continue
        elif mod == "shape" and lf is not None and lf["dt"] in NPDT:
            lf["shape"] = lf["shape"] + [1]
        elif mod == "kind" and t["k"] in ("tuple", "list"):
            t["k"] = "list" if t["k"] == "tuple" else "tuple"
        elif mod == "keys" and t["k"] == "dict" and t["keys"]:
            t["keys"] = ["c"] + t["keys"][1:]
        elif mod == "extra" and t["k"] in ("tuple", "list"):
            t["items"] = t["items"] + [{"k": "arr", "shape": [], "dt": "float64"}]
        else:
            continue
        out.append(t)
    return out


def nslots(sp):
    if sp["k"] == "arr":
        return int(onp.prod(sp["shape"])) if sp["shape"] else 1
    return sum(nslots(c) for c in sp["items"])


def run(case):
    sp = case["sp"]
    o = {"id": case["id"], "sp": sp, "x": case["x"], "y": case["y"], "z": case["z"], "a": case["a"], "b": case["b"], "err": ""}
    try:
        # every third tuple-rooted space whose arity fits is built as one of numpy.linalg's named-tuple result types
        ROOT[0], NAMED[0] = sp, None
        if sp["k"] == "tuple" and case["id"] % 3 == 0:
            fits = [t for t in named_types() if len(t._fields) == len(sp["items"])]
            if fits:
                NAMED[0] = fits[(case["id"] // 3) % len(fits)]
        LAYOUT[0] = ["C", "C", "F", "T"][case["id"] % 4]
        x, _ = build(sp, case["x"])
        REVERSE_DICTS[0] = case["id"] % 2 == 1      # two vectors of one space whose dicts were filled in different orders
        LAYOUT[0] = ["C", "F", "T", "C"][case["id"] % 4]
        y, _ = build(sp, case["y"])
        REVERSE_DICTS[0] = False
        LAYOUT[0] = ["C", "T", "C", "F"][case["id"] % 4]
        z, _ = build(sp, case["z"])
        LAYOUT[0] = "C"
        snap = json.dumps(flatten(sp, x))
        vs = vspace(x)
        o["add"] = flatten(sp, vs.add(x, y))
        o["add_yx"] = flatten(sp, vs.add(y, x))
        o["add3"] = flatten(sp, vs.add(vs.add(x, y), z))
        acc = vs.mut_add(None, x)
        fresh_equal = flatten(sp, acc) == case["x"]
        shares = any(onp.shares_memory(a, b) for a in leaves(acc) for b in leaves(x))
        acc2 = vs.mut_add(None, x)
        shares = shares or any(onp.shares_memory(a, b) for a in leaves(acc) for b in leaves(acc2))
        acc = vs.mut_add(acc, y)
        acc = vs.mut_add(acc, z)
        o["mut_add3"] = flatten(sp, acc)
        # accumulating into a vector the CALLER built (leaves may be immutable Python / NumPy scalars, not the 0-d arrays of zeros()):
        # the value handed back is x + y, and the vector that is added (y) is never written to
        xc, _ = build(sp, case["x"])
        ysnap = json.dumps(flatten(sp, y))
        o["mut_add_xy"] = flatten(sp, vs.mut_add(xc, y))
        o["y_intact"] = bool(json.dumps(flatten(sp, y)) == ysnap)
        # add() hands back memory of its own as well (add_outgrads accumulates into it in place later): also when an operand is all zeros
        zv = vs.zeros()
        for w_ in (vs.add(x, y), vs.add(x, zv), vs.add(zv, y)):
            shares = shares or any(isinstance(a, onp.ndarray) and isinstance(b, onp.ndarray) and a.ndim and onp.shares_memory(a, b)
                                   for a in leaves(w_) for b in leaves(x) + leaves(y) + leaves(zv))
        o["fresh"] = bool(fresh_equal and not shares)
        o["smul"] = flatten(sp, vs.scalar_mul(x, float(case["a"])))
        ip, ip2 = vs.inner_prod(x, y), vs.inner_prod(y, x)
        o["inner"] = int(round(float(ip))) if float(ip) == round(float(ip)) else -999999
        o["inner_yx"] = int(round(float(ip2))) if float(ip2) == round(float(ip2)) else -999999
        o["inner_real"] = bool(not onp.iscomplexobj(ip))
        # the inner product keeps the precision and range of the leaves: for extended-precision (longdouble) leaves, scaling both vectors by
        # 2^600 scales it by 2^1200 exactly (beyond the range of a double; skipped where long double is a double)
        o["inner_scaled_ok"] = True
        if isinstance(x, (tuple, list, dict)) and onp.finfo(onp.longdouble).maxexp > 2000 and not any(onp.iscomplexobj(l) for l in leaves(x)) and leaves(x):
            def ext(v):       # the extended-precision twin of a real vector: same structure, every leaf a longdouble array
                if isinstance(v, dict):
                    return {k_: ext(q) for k_, q in v.items()}
                if isinstance(v, (tuple, list)):
                    return type(v)(ext(q) for q in v) if type(v) in (tuple, list) else type(v)(*[ext(q) for q in v])
                return onp.asarray(v, dtype=onp.longdouble)
            xl, yl = ext(x), ext(y)
            vl = vspace(xl)
            s_ = onp.longdouble(2) ** 600
            small = vl.inner_prod(xl, yl)
            big = vl.inner_prod(vl.scalar_mul(xl, s_), vl.scalar_mul(yl, s_))
            o["inner_scaled_ok"] = bool(onp.longdouble(small) == onp.longdouble(float(ip)) and onp.longdouble(big) == onp.longdouble(small) * s_ * s_)
        o["cov"] = flatten(sp, vs.covector(x))
        o["covcov"] = flatten(sp, vs.covector(vs.covector(x)))
        o["zeros"] = flatten(sp, vs.zeros())
        o["ones"] = flatten(sp, vs.ones())
        o["size"] = int(vs.size)
        o["basis"] = [flatten(sp, e) for e in vs.standard_basis()]
        o["x_intact"] = bool(json.dumps(flatten(sp, x)) == snap)
        # closure: every vector an operation returns lies in the space of its operands (same container type, same space)
        outs = [vs.add(x, y), vs.mut_add(None, x), vs.scalar_mul(x, float(case["a"])), vs.covector(x), vs.zeros(), vs.ones()] + list(vs.standard_basis())[:3]
        cont = isinstance(x, (tuple, list, dict))
        o["closed"] = bool(all((type(w) is type(x) if cont else True) and vspace(w) == vs for w in outs))
        o["named"] = NAMED[0].__name__ if NAMED[0] is not None else ""
        named = NAMED[0]
        eqs = []
        for nb in neighbours(sp):
            try:
                ROOT[0], NAMED[0] = nb, named          # the neighbouring spaces are built as the same kind of tuple
                w, _ = build(nb, [[0, 0]] * nslots(nb))
                eqs.append({"sp": nb, "eq": bool(vs == vspace(w)), "eq_rev": bool(vspace(w) == vs), "ne": bool(vs != vspace(w))})
            except Exception as ex:     # noqa
                pass
        o["eqs"] = eqs
        NAMED[0] = None
    except Exception as ex:     # noqa
        import traceback
        o["err"] = type(ex).__name__ + ": " + str(ex)[:200] + " @ " + traceback.format_exc().splitlines()[-3].strip()[:120]
    return o


def main():
    cases = json.load(open(sys.argv[1]))
    with open(sys.argv[2], "w") as f:
        for c in cases:
            f.write(json.dumps(run(c)) + "\n")


if __name__ == "__main__":
    main()
