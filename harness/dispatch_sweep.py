"""Sweep of the exported NumPy-compatible namespace (C15): for every callable and every positional float-array argument of a
call template NumPy accepts, does differentiation raise, return a derivative, or silently treat the argument as a constant?

usage: dispatch_sweep.py <shard.json> <rows.ndjson>     shard = {"shard": k, "nshards": n}
Rows: {"id", "ns", "name", "template", "argpos", "mode", "kind", "varies", "outcome", "agrees", "stable", "guard": false, ...}
plus guard rows {"guard": true, "name", "outcome"} for requests that must fail loudly.
"""
import inspect
import json
import sys
import warnings
import zlib

import numpy as onp

import autograd.numpy as np
import autograd.numpy.linalg as npla
import autograd.numpy.fft as npfft
import autograd.numpy.random as nprand
from autograd import make_vjp, make_jvp, grad, value_and_grad, elementwise_grad, jacobian
from autograd.core import VJPNode, JVPNode, primitive_vjps, primitive_jvps
from autograd.numpy.numpy_boxes import ArrayBox
from autograd.tracer import notrace_primitives, isbox

warnings.simplefilter("ignore")
onp.seterr(all="ignore")

# callables with side effects on files, global state or their arguments, or that block: never called
DENY = {"save", "savez", "savez_compressed", "savetxt", "load", "loadtxt", "genfromtxt", "fromfile", "fromregex", "memmap", "open_memmap",
        "show_config", "info", "lookfor", "source", "test", "seterr", "seterrcall", "setbufsize", "set_printoptions", "set_string_function",
        "put", "place", "putmask", "copyto", "fill_diagonal", "put_along_axis", "shuffle", "seed", "set_state", "get_state", "bytes", "tofile",
        "printoptions", "errstate", "deprecate", "deprecate_with_doc", "disp", "who", "byte_bounds", "safe_eval", "add_newdoc", "add_docstring",
        "get_include", "show_runtime", "input", "breakpoint", "exit", "quit", "help", "copy", "license", "credits", "array2string", "array_repr",
        "array_str", "format_float_positional", "format_float_scientific", "base_repr", "binary_repr", "typename", "mintypecode", "isdtype",
        "frombuffer", "from_dlpack", "fromstring", "fromiter", "fromfunction", "busday_count", "busday_offset", "is_busday", "datetime_as_string",
        "datetime_data", "einsum_path", "nested_iters", "nditer", "ndenumerate", "ndindex", "broadcast", "vectorize", "frompyfunc", "piecewise",
        "apply_along_axis", "apply_over_axes", "setdiff1d", "require", "asarray_chkfinite", "array_from_args", "array_from_scalar_or_array",
        "_array_from_scalar_or_array", "wrap_namespace", "wrap_intdtype", "metadata", "parse_einsum_input", "make_diagonal", "unbox_args",
        "stack", "concatenate_args", "primitive", "notrace_primitive", "isscalar", "getbufsize", "geterr", "geterrcall", "may_share_memory",
        "shares_memory", "result_type", "can_cast", "promote_types", "min_scalar_type", "common_type", "iterable", "issubdtype", "asmatrix",
        "bmat", "matrix", "mat", "recarray", "record", "chararray", "char", "rec", "ma", "emath", "polynomial", "lib", "ctypeslib", "testing", "f2py",
        "rand", "randn", "randint", "random", "random_sample", "ranf", "sample", "choice", "permutation", "normal", "uniform", "standard_normal",
        "RandomState", "default_rng", "Generator"}


def gen(shape, lo=0.35, hi=2.65, k=0):
    n = int(onp.prod(shape)) if shape else 1
    return (lo + (hi - lo) * (((onp.arange(n) + 1 + k) * 0.6180339887498949) % 1.0)).reshape(shape)


A3, B3 = gen((3,), k=0), gen((3,), k=5)
M33 = gen((3, 3), k=2) + 2 * onp.eye(3)
N33 = gen((3, 3), k=11)
M23 = gen((2, 3), k=7)
S33 = (M33 + M33.T) / 2 + 3 * onp.eye(3)
U3 = gen((3,), 0.1, 0.9, 4)
TEMPLATES = [
    ("A", (A3,), {}), ("AB", (A3, B3), {}), ("M", (M33,), {}), ("MN", (M33, N33), {}), ("Aaxis", (A3,), {"axis": 0}), ("Maxis", (M23,), {"axis": 1}),
    ("Aint", (A3, 2), {}), ("Mint", (M23, 1), {}), ("U", (U3,), {}), ("S", (S33,), {}), ("MA", (M33, A3), {}), ("AM", (A3, M33), {}),
    ("scalar", (1.3,), {}), ("scalars", (1.3, 0.7), {}), ("Ashape", (A3, (3, 1)), {}), ("Aintint", (M23, 0, 1), {}),
    ("condAB", (A3 > 1.2, A3, B3), {}), ("Aidx", (A3, onp.array([0, 2])), {}), ("AUB", (A3, U3, B3 + 1.0), {}),
]
# special values in an argument that is NOT the differentiated one (exact zeros, ties with the differentiated argument): functions that
# select between their arguments depending on another one (heaviside(x1, x2) returns x2 where x1 == 0) depend on the differentiated
# argument only at such entries.  ONLY[tname] = the positions that are differentiated for that template (others hold the special values).
# longer vectors (some rules need at least 4 points along an axis: np.gradient) with an extra positional number
A5 = gen((5,), k=13)
M45 = gen((4, 5), k=17)
TEMPLATES = [("A5int", (A5, 2), {})] + TEMPLATES + [("A5", (A5,), {}), ("M45int", (M45, 2), {}), ("M45intint", (M45, 2, 3), {}), ("A5axis", (A5,), {"axis": 0})]
Z3 = onp.array([0.0, 1.5, 0.0])
SPECIAL_TEMPLATES = [("ZB", (Z3, B3), {}), ("AZ", (A3, Z3), {}), ("ZAB", (Z3, A3, B3), {})]
ONLY = {"ZB": [1], "AZ": [0], "ZAB": [1, 2]}
TEMPLATES = TEMPLATES + SPECIAL_TEMPLATES


def float_out(y):
    """first floating (or complex) array in the output, as a real vector; None if there is none"""
    if isinstance(y, (tuple, list)):
        for e in y:
            r = float_out(e)
            if r is not None:
                return r
        return None
    try:
        a = onp.asarray(y)
    except Exception:
        return None
    if a.dtype.kind == "f":
        return a.astype(float).ravel()
    if a.dtype.kind == "c":
        return onp.concatenate([a.real.ravel(), a.imag.ravel()]).astype(float)
    return None


SCIPY_MODE = [False]       # set by main() for shards with {"scipy": true}: sweep autograd.scipy instead (needs the tooling interpreter)
SCIPY_DENY = {"get_blas_funcs", "get_lapack_funcs", "find_best_blas_type", "LinAlgError", "LinAlgWarning", "test", "odeint", "rvs"}


def scipy_namespaces():
    """the SciPy-compatible namespaces autograd exports: every callable of autograd.scipy.special / .linalg / .signal / .stats.<dist> that
    SciPy has under the same name (autograd.scipy.linalg wraps ALL of scipy.linalg, mostly without rules: those must raise)"""
    import importlib
    import scipy.special, scipy.linalg, scipy.signal, scipy.stats      # noqa
    out = []
    mods = [("special", "autograd.scipy.special", scipy.special), ("scipy.linalg", "autograd.scipy.linalg", scipy.linalg),
            ("signal", "autograd.scipy.signal", scipy.signal)]
    for dist in ("norm", "t", "gamma", "beta", "chi2", "poisson", "dirichlet", "multivariate_normal"):
        mods.append(("stats." + dist, "autograd.scipy.stats." + dist, getattr(scipy.stats, dist)))
    for ns, modname, ref in mods:
        mod = importlib.import_module(modname)
        for name in sorted(vars(mod)):
            obj = getattr(mod, name)
            if name.startswith("_") or not callable(obj) or inspect.isclass(obj) or inspect.ismodule(obj) or name in SCIPY_DENY:
                continue
            if not hasattr(ref, name) or not (getattr(obj, "_is_autograd_primitive", False) or getattr(obj, "__module__", "") == modname):
                continue          # a helper, or a name merely imported into the module (np, defvjp, ...)
            out.append((ns, name, obj, False))
    return out


def namespaces():
    if SCIPY_MODE[0]:
        return scipy_namespaces()
    out = []
    for ns, mod in (("numpy", np), ("linalg", npla), ("fft", npfft), ("random", nprand)):
        for name in sorted(vars(mod)):
            obj = getattr(mod, name)
            if name.startswith("__") or not callable(obj) or inspect.isclass(obj) or inspect.ismodule(obj):
                continue
            if name in DENY or name.startswith("_"):
                continue
            ref = {"numpy": onp, "linalg": onp.linalg, "fft": onp.fft, "random": onp.random}[ns]
            if not hasattr(ref, name):
                continue          # helper of autograd itself, not part of the NumPy-compatible namespace
            out.append((ns, name, obj, False))
    for name in sorted(set(dir(ArrayBox)) - set(dir(object))):
        if name.startswith("_") and not (name.startswith("__") and name.endswith("__")):
            continue
        if name in ("register", "type_mappings", "types", "__slots__", "__module__", "__doc__", "__dict__", "__weakref__", "__init__", "__bool__",
                    "__nonzero__", "__str__", "__repr__", "__len__", "__hash__", "__getitem__", "__setitem__", "__array_priority__", "astype",
                    "__float__", "__int__", "__complex__", "__index__", "item", "tolist", "tostring", "tobytes"):
            continue
        out.append(("ArrayBox", name, name, True))
    return out


def kind_of(obj, mode):
    node = VJPNode if mode == "vjp" else JVPNode
    table = primitive_vjps if mode == "vjp" else primitive_jvps
    if getattr(obj, "_is_autograd_primitive", False):
        if obj in notrace_primitives[node]:
            return "notrace_reg"
        return "prim_rule" if obj in table else "prim_norule"
    if getattr(obj, "_is_primitive", False):
        return "notrace_wrap"
    return "unwrapped"


def fresh(args):
    """the template arrays are never shared between calls (some NumPy functions write into their arguments)"""
    return tuple(onp.array(v, copy=True) if isinstance(v, onp.ndarray) else v for v in args)


def call_of(entry, args, kwargs, pos):
    ns, name, obj, is_method = entry
    if not is_method:
        def f0(x):
            a = fresh(args)
            return obj(*(a[:pos] + (x,) + a[pos + 1:]), **kwargs)
        return f0
    attr = name

    def f(x):
        a = fresh(args)
        a = a[:pos] + (x,) + a[pos + 1:]
        m = getattr(a[0] if pos == 0 else np.asarray(a[0]), attr) if pos == 0 else getattr(ArrayBox, attr)
        if pos == 0:
            return m(*a[1:], **kwargs) if callable(m) else m
        return m(*a, **kwargs)
    return f


def classify(f, x, mode):
    """returns (outcome, directional derivative along d or None)"""
    rs = onp.random.RandomState(3)
    d = rs.uniform(0.5, 1.0, onp.shape(x)) * rs.choice([-1.0, 1.0], onp.shape(x))
    try:
        with warnings.catch_warnings(record=True) as wl:
            warnings.simplefilter("always")
            if mode == "vjp":
                vjp, val = make_vjp(f)(x)
                indep = any("independent" in str(w.message) for w in wl)
                y = float_out(val)
                if y is None:
                    return "zero" if indep or not isbox(val) else "nonfloat", None, d
                if indep:
                    return "zero", None, d
                # directional derivative through the cotangent basis is expensive: use <g, J d> with a random g instead
                return "derivative", ("vjp", vjp, val), d
            else:
                val, t = make_jvp(f)(x)(d)
                indep = any("independent" in str(w.message) for w in wl)
                if indep:
                    return "zero", None, d
                return "derivative", ("jvp", t, val), d
    except Exception as ex:     # noqa
        return "raised:" + type(ex).__name__, None, d


def first_float(y):
    """the first floating array of an output, as returned (for pairing with cotangents)"""
    if isinstance(y, (tuple, list)):
        for e in y:
            r = first_float(e)
            if r is not None:
                return r
        return None
    a = onp.asarray(y)
    return a if a.dtype.kind in "fc" else None


def sweep(shard, nshards):
    rows = []
    rid = 0
    for entry in namespaces():
        ns, name, obj, is_method = entry
        if zlib.crc32((ns + "." + name).encode()) % nshards != shard:
            continue
        raw = obj if not is_method else None
        done_templates = 0
        per_arity = {}
        for tname, args, kwargs in TEMPLATES:
            # templates are capped per (number of float arguments, kinds of the OTHER arguments): f(x), f(x, 2), f(x, axis=0), f(x, (3, 1)),
            # f(x, idx) ... are different requests (an extra positional int is np.gradient's spacing, np.roll's shift, np.repeat's count)
            arity = (sum(1 for a in args if (isinstance(a, onp.ndarray) and a.dtype.kind == "f") or isinstance(a, float)),
                     tuple(type(a).__name__ for a in args if not ((isinstance(a, onp.ndarray) and a.dtype.kind == "f") or isinstance(a, float))),
                     tuple(sorted(kwargs)))
            special = tname in ONLY
            uf = getattr(onp, name, None)
            if isinstance(uf, onp.ufunc) and not is_method and len(args) > uf.nin:
                continue          # positional arguments of a ufunc beyond its inputs are `out` arrays
            if special:
                arity = "special"
                if is_method:
                    continue
            if per_arity.get(arity, 0) >= (4 if special else 3):
                continue
            if tname == "AUB" and (is_method or isinstance(getattr(onp, name, None), onp.ufunc)):
                continue          # a third positional array of a ufunc is its `out` argument
            positions = [i for i, a in enumerate(args) if isinstance(a, onp.ndarray) and a.dtype.kind == "f" or isinstance(a, float)]
            if is_method:
                positions = [p for p in positions if p == 0]
            if special:
                positions = [p for p in positions if p in ONLY[tname]]
            if not positions:
                continue
            if ns == "scipy.linalg" and tname in ("scalar", "scalars"):
                continue          # matrix functions of a Python scalar (scipy 1.17 returns exp(x) for sqrtm(x) of a scalar)
            if ns.startswith("stats.multivariate_normal"):
                continue          # functions of a SYMMETRIC matrix argument: covered by the scipy family of C01 with symmetrised inputs
            # plain NumPy must accept the template
            try:
                f0 = call_of(entry, args, kwargs, positions[0])
                with warnings.catch_warnings(record=True) as wl0:
                    warnings.simplefilter("always")
                    y0 = f0(fresh(args)[positions[0]])
                if any("truncated to an integer" in str(w.message) for w in wl0):
                    continue      # an integer-only parameter (order of yn, ...) given a float: SciPy truncates it, not a meaningful request
            except Exception:
                continue
            if float_out(y0) is None:
                if done_templates == 0:
                    rid += 1
                    rows.append({"id": rid, "ns": ns, "name": name, "template": tname, "argpos": -1, "mode": "-", "kind": "unknown", "varies": False,
                                 "outcome": "nonfloat", "agrees": True, "stable": False, "guard": False, "nd": False})
                    done_templates += 1
                continue
            done_templates += 1
            per_arity[arity] = per_arity.get(arity, 0) + 1
            # one differentiated value feeding ALL float positions at once (several boxed arguments in one call)
            if len(positions) >= 2 and not is_method and not special:
                scales = [1.0, 1.1, 1.2, 1.3]

                def fall(x, positions=positions, args=args, kwargs=kwargs):
                    a = list(fresh(args))
                    for q, p_ in enumerate(positions):
                        a[p_] = (x * scales[q % 4]) if onp.shape(args[p_]) == onp.shape(x) else a[p_]
                    return obj(*a, **kwargs)
                x = args[positions[0]]
                if all(onp.shape(args[p_]) == onp.shape(x) for p_ in positions):
                    try:
                        base = float_out(fall(x))
                        rs = onp.random.RandomState(3)
                        d = rs.uniform(0.5, 1.0, onp.shape(x)) * rs.choice([-1.0, 1.0], onp.shape(x))
                        gg = lambda eps: float_out(fall(x + eps * d))
                        varies = all(not onp.array_equal(gg(e), base) for e in (1e-7, -1e-7, 1e-9, -1e-9))
                        fd1 = (gg(1e-4) - gg(-1e-4)) / 2e-4
                        fd2 = (gg(5e-5) - gg(-5e-5)) / 1e-4
                        stable = bool(onp.all(onp.isfinite(fd1)) and onp.max(onp.abs(fd1 - fd2) / onp.maximum(1.0, onp.abs(fd1)), initial=0) < 1e-4)
                        outcome, payload, _ = classify(fall, x, "jvp")
                        agrees = True
                        if outcome == "derivative":
                            t = float_out(payload[1])
                            agrees = bool(t is not None and t.shape == fd1.shape and onp.max(onp.abs(t - fd1) / onp.maximum(1.0, onp.abs(fd1)), initial=0) < 1e-2)
                        o2, p2, _ = classify(fall, x, "vjp")
                        agrees2 = True
                        if o2 == "derivative" and not isinstance(p2[2], (tuple, list)):
                            out0 = first_float(p2[2])
                            gcot = onp.ones(onp.shape(out0))
                            r = onp.asarray(p2[1](gcot if onp.ndim(out0) else 1.0))
                            lhs = float(onp.sum(onp.real(r) * d))
                            rhs = float(onp.sum(fd1)) if out0.dtype.kind == "f" else float(onp.sum(fd1[:fd1.size // 2]))
                            agrees2 = bool(abs(lhs - rhs) / max(1.0, abs(rhs)) < 1e-2)
                        for mode, oc, ag in (("jvp", outcome, agrees), ("vjp", o2, agrees2)):
                            rid += 1
                            rows.append({"id": rid, "ns": ns, "name": name, "template": tname, "argpos": -2, "mode": mode, "kind": "unknown",
                                         "varies": bool(varies), "outcome": oc.split(":")[0], "exc": oc.split(":")[1] if ":" in oc else "",
                                         "agrees": bool(ag), "stable": bool(stable) and name not in ("cholesky", "eigh", "eigvalsh", "eig", "eigvals"),
                                         "guard": False, "nd": False})
                    except Exception:
                        pass
            for pos in positions:
                f = call_of(entry, args, kwargs, pos)
                x = args[pos]
                x = onp.array(x, copy=True) if isinstance(x, onp.ndarray) else x
                try:
                    base = float_out(f(x))
                except Exception:
                    continue
                if base is None:
                    continue
                rs = onp.random.RandomState(3)
                d = rs.uniform(0.5, 1.0, onp.shape(x)) * rs.choice([-1.0, 1.0], onp.shape(x))

                def g(eps):
                    return float_out(f(x + eps * d))
                try:
                    tiny = [g(e) for e in (1e-7, -1e-7, 1e-9, -1e-9)]
                    varies = all(t is not None and t.shape == base.shape and onp.all(onp.isfinite(t)) and not onp.array_equal(t, base) for t in tiny)
                    fd1 = (g(1e-4) - g(-1e-4)) / 2e-4
                    fd2 = (g(5e-5) - g(-5e-5)) / 1e-4
                    stable = bool(onp.all(onp.isfinite(fd1)) and onp.max(onp.abs(fd1 - fd2) / onp.maximum(1.0, onp.abs(fd1)), initial=0) < 1e-4)
                except Exception:
                    continue
                if name in ("cholesky", "eigh", "eigvalsh", "eig", "eigvals"):
                    stable = False       # defined on symmetric matrices only: covered by the linalg family of C01 with symmetrised inputs
                for mode in ("vjp", "jvp"):
                    outcome, payload, _ = classify(f, x, mode)
                    agrees = True
                    if outcome == "derivative":
                        try:
                            if payload[0] == "jvp":
                                t = float_out(payload[1])
                                agrees = bool(t is not None and t.shape == fd1.shape and
                                              onp.max(onp.abs(t - fd1) / onp.maximum(1.0, onp.abs(fd1)), initial=0) < 1e-2)
                            else:
                                vjp, val = payload[1], payload[2]
                                out0 = first_float(val)
                                if isinstance(val, (tuple, list)):
                                    agrees = True        # multi-output: structure of the cotangent is checked elsewhere
                                else:
                                    gcot = onp.ones(onp.shape(out0)) if out0.dtype.kind == "f" else onp.ones(onp.shape(out0)) + 0j
                                    r = onp.asarray(vjp(gcot if onp.ndim(out0) else float(onp.real(gcot))))
                                    lhs = float(onp.sum(onp.real(r) * d)) if onp.ndim(r) else float(onp.real(r) * d)
                                    if out0.dtype.kind == "f":
                                        rhs = float(onp.sum(fd1))
                                    else:
                                        rhs = float(onp.sum(fd1[:fd1.size // 2]))
                                    agrees = bool(abs(lhs - rhs) / max(1.0, abs(rhs)) < 1e-2)
                        except Exception as ex:     # noqa
                            outcome = "raised:" + type(ex).__name__
                    rid += 1
                    rows.append({"id": rid, "ns": ns, "name": name, "template": tname, "argpos": pos, "mode": mode,
                                 "kind": kind_of(raw, mode) if raw is not None else "unknown", "varies": bool(varies),
                                 "outcome": outcome.split(":")[0], "exc": outcome.split(":")[1] if ":" in outcome else "",
                                 "agrees": bool(agrees), "stable": bool(stable), "guard": False, "nd": False})
    return rows


def guards():
    """requests autograd cannot serve: each must fail loudly (any exception), under reverse mode unless stated"""
    x3, x33 = gen((3,)), gen((3, 3)) + onp.eye(3)
    cases = []

    def add(name, thunk):
        cases.append((name, thunk))

    def setitem(v):
        v = v * 1.0
        v[0] = 2.0
        return np.sum(v)
    add("x[i] = v on a differentiated array", lambda: grad(setitem)(x3))
    add("grad of a non-scalar output", lambda: grad(lambda v: v * 2.0)(x3))
    add("grad of a complex output", lambda: grad(lambda v: np.sum(v) * (1.0 + 2.0j))(x3))
    add("value_and_grad of a non-scalar output", lambda: value_and_grad(lambda v: v * 2.0)(x3))
    add("elementwise_grad of a complex output", lambda: elementwise_grad(lambda v: v * (1.0 + 2.0j))(x3))
    # ... whatever the complex dtype and whether the complex result is a NumPy scalar or a size-1 array
    c64 = onp.array([1.0 + 2.0j, 3.0 - 1.0j, 0.5j], dtype=onp.complex64)
    add("grad of a complex64 size-1 array output", lambda: grad(lambda v: np.sum(v * c64, keepdims=True))(x3))
    add("value_and_grad of a complex64 size-1 array output", lambda: value_and_grad(lambda v: np.sum(v * c64, keepdims=True))(x3))
    add("elementwise_grad of a complex64 output", lambda: elementwise_grad(lambda v: v * c64)(x3))
    add("grad of a complex128 size-1 array output", lambda: grad(lambda v: np.sum(v * c64.astype(complex), keepdims=True))(x3))
    add("grad of a clongdouble size-1 array output", lambda: grad(lambda v: np.sum(v * c64.astype(onp.clongdouble), keepdims=True))(x3))
    add("integer input", lambda: grad(lambda v: v * 2.0)(3))
    add("string input", lambda: grad(lambda v: 1.0)("abc"))
    add("svd with full_matrices=True (u)", lambda: grad(lambda m: np.sum(np.linalg.svd(m)[0]))(gen((2, 3))))
    add("sort of a 2-D array (reverse)", lambda: grad(lambda m: np.sum(np.sort(m, axis=0) * gen((3, 3))))(x33))
    add("partition of a 2-D array (reverse)", lambda: grad(lambda m: np.sum(np.partition(m, 1) * gen((3, 3))))(x33))
    add("einsum list form without output sublist", lambda: grad(lambda m: np.sum(np.einsum(m, [0, 1], x33, [1, 2])))(x33))
    add("fft2 with a repeated axis", lambda: grad(lambda m: np.sum(np.real(np.fft.fft2(m, axes=(0, 0)))))(x33))
    add("rfft of odd length", lambda: grad(lambda v: np.sum(np.real(np.fft.rfft(v))))(x3))
    add("norm with an unsupported ord (ord=-1)", lambda: grad(lambda v: np.linalg.norm(v, -1))(x3))
    add("matrix norm ord=2", lambda: grad(lambda m: np.linalg.norm(m, 2))(x33))
    add("function without any rule (unwrap)", lambda: grad(lambda v: np.sum(np.unwrap(v)))(x3))
    add("function without a JVP rule in forward mode (hypot)", lambda: make_jvp(lambda v: np.hypot(v, 2.0))(x3)(x3))
    add("boolean input", lambda: grad(lambda v: 1.0 * v)(True))
    add("jacobian with a tuple argnum", lambda: jacobian(lambda a, b: a * b, (0, 1))(x3, x3))
    # leaving the traced world through Python's conversion protocols must not silently turn a traced value into a constant
    import math

    def store(v):
        buf = onp.zeros(3)
        buf[0] = v[0] ** 2
        return np.sum(v) + buf[0]

    def store_slice(v):
        buf = onp.zeros(3)
        buf[:] = v ** 2
        return np.sum(buf)
    add("float() of a traced scalar", lambda: grad(lambda t: float(t) * t)(1.3))
    add("int() of a traced scalar", lambda: grad(lambda t: int(t) * t)(1.3))
    add("complex() of a traced scalar", lambda: grad(lambda t: np.real(complex(t) * t))(1.3))
    add("math.sin of a traced scalar", lambda: grad(lambda t: math.sin(t) * t)(1.3))
    add("math.exp of a traced scalar (forward mode)", lambda: make_jvp(lambda t: math.exp(t) * t)(1.3)(1.0))
    add("storing a traced entry into a plain ndarray", lambda: grad(store)(x3))
    add("storing a traced array into a plain ndarray slice", lambda: grad(store_slice)(x3))
    add("numpy.float64() of a traced scalar", lambda: grad(lambda t: onp.float64(t) * t)(1.3))
    add("plain numpy function on a traced array (onp.sin)", lambda: grad(lambda v: np.sum(onp.sin(v) * v))(x3))
    rows = []
    for i, (name, thunk) in enumerate(cases):
        try:
            with warnings.catch_warnings():
                warnings.simplefilter("ignore")
                r = thunk()
            outcome, exc = "returned", repr(r)[:80]
        except Exception as ex:     # noqa
            outcome, exc = "raised", type(ex).__name__
        rows.append({"id": 100000 + i, "ns": "guard", "name": name, "template": "-", "argpos": 0, "mode": "vjp", "kind": "unknown", "varies": True,
                     "outcome": outcome, "exc": exc, "agrees": True, "stable": False, "guard": True, "nd": False})
    return rows


def nondiff_rows():
    """C14: every function autograd registers as non-differentiable (plus the shape/type queries), called on a traced value in both
    modes: the value is plain and equals NumPy's, and derivative flow is blocked (d/dx sum(x * f(x)) = f(x))."""
    from autograd.numpy.numpy_vjps import nograd_functions
    import autograd.builtins as ab
    fns = [(getattr(f, "__name__", str(f)), f) for f in nograd_functions]
    fns += [("ndim", np.ndim), ("shape", np.shape), ("iscomplexobj", np.iscomplexobj), ("result_type", np.result_type),
            ("isinstance", lambda v: ab.isinstance(v, onp.ndarray)), ("type", lambda v: ab.type(v) is onp.ndarray)]
    x3 = gen((3,)) * 1.7 + 0.25
    m23 = gen((2, 3), k=4) * 1.7 + 0.25
    # keyword-argument templates first: the keyword arguments must reach the function when it is called on a traced value
    templates = [("Maxis", lambda f, v: f(v, axis=0), m23), ("Adec", lambda f, v: f(v, decimals=1), x3 * 1.234), ("ABtol", lambda f, v: f(v, x3 + 0.05, atol=0.1), x3),
                 ("Mkeep", lambda f, v: f(v, axis=1, keepdims=True), m23),
                 ("A", lambda f, v: f(v), x3), ("M", lambda f, v: f(v), m23), ("AB", lambda f, v: f(v, B3), x3),
                 ("Aint", lambda f, v: f(v, 1), x3), ("BA", lambda f, v: f(B3, v), x3)]
    rows = []
    for i, (name, fn) in enumerate(fns):
        done = 0
        for tname, call, x in templates:
            if done >= 3:
                break
            try:
                want = call(fn, x)        # plain NumPy through the unboxed branch
            except Exception:
                continue
            done += 1
            for mode in ("vjp", "jvp"):
                seen = {}

                def f(v):
                    r = call(fn, v)
                    seen["r"] = r
                    rr = onp.asarray(r)
                    if rr.dtype.kind in "fiub" and (rr.shape == () or rr.shape == onp.shape(v)):
                        return np.sum(v * r)
                    return np.sum(v)
                row = {"id": 200000 + 20 * i + len(rows) % 20, "ns": "nondiff", "name": name, "template": tname, "argpos": 0, "mode": mode, "kind": "unknown",
                       "varies": False, "outcome": "zero", "exc": "", "agrees": True, "stable": False, "guard": False, "nd": True,
                       "plain_eq": False, "unboxed": False, "blocks": False}
                try:
                    if mode == "vjp":
                        g = onp.asarray(make_vjp(f)(x)[0](1.0))
                    else:
                        g = None
                        make_jvp(f)(x)(onp.ones_like(x))
                    r = seen.get("r")

                    def boxed(q):
                        return isbox(q) or (isinstance(q, (tuple, list)) and any(boxed(e) for e in q))
                    row["unboxed"] = not boxed(r)
                    if isinstance(want, (tuple, list)):
                        row["plain_eq"] = bool(len(r) == len(want) and all(onp.array_equal(onp.asarray(a), onp.asarray(b)) for a, b in zip(r, want)))
                    else:
                        row["plain_eq"] = bool(type(r) is type(want) and onp.array_equal(onp.asarray(r), onp.asarray(want), equal_nan=True)) \
                            if not isinstance(want, onp.dtype) else r == want
                    rr = onp.asarray(want) if not isinstance(want, (tuple, list, onp.dtype, type)) else None
                    if mode == "vjp" and rr is not None and rr.dtype.kind in "fiub" and (rr.shape == () or rr.shape == onp.shape(x)):
                        row["blocks"] = bool(onp.allclose(g, onp.broadcast_to(rr.astype(float), onp.shape(x))))
                    else:
                        row["blocks"] = True
                    if mode == "vjp" and rr is not None and rr.dtype.kind in "fiub":
                        # an output that does not depend on the argument at all: ONE VJP function, called three times; the caller owns
                        # what a call returns and may change it in place - every call still returns an exact zero of the argument's space
                        hv, _val = make_vjp(lambda v: np.sum(onp.asarray(call(fn, v), dtype=float)) * 1.0)(x)
                        outs = []
                        for gq in (1.0, 1.0, 2.0):
                            z = hv(gq)
                            outs.append(bool(onp.shape(z) == onp.shape(x) and not onp.any(onp.asarray(z))))
                            if isinstance(z, onp.ndarray) and z.flags.writeable:
                                z += 5.0
                        row["indep_again"] = outs
                        row["blocks"] = bool(row["blocks"] and all(outs))
                except Exception as ex:     # noqa
                    row["exc"] = type(ex).__name__ + ": " + str(ex)[:80]
                rows.append(row)
    for k, r in enumerate(rows):
        r["id"] = 200000 + k
    return rows


def main():
    sh = json.load(open(sys.argv[1]))[0]
    if sh.get("nondiff"):
        with open(sys.argv[2], "w") as f:
            for r in nondiff_rows():
                f.write(json.dumps(r) + "\n")
        return
    SCIPY_MODE[0] = bool(sh.get("scipy"))
    rows = sweep(sh["shard"], sh["nshards"])
    if sh["shard"] == 0 and not SCIPY_MODE[0]:
        rows += guards()
    with open(sys.argv[2], "w") as f:
        for r in rows:
            r["id"] = r["id"] + 1000000 * (sh["shard"] + (100 if SCIPY_MODE[0] else 0)) if not r["guard"] else r["id"]
            f.write(json.dumps(r) + "\n")


if __name__ == "__main__":
    main()
