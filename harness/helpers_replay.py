"""Replay of Helpers.tla cases on autograd's real shared helper functions (unbroadcast, broadcast, repeat_to_match_shape).
usage: helpers_replay.py <cases.json> <obs.ndjson>"""
import json
import sys

import numpy as onp

import autograd.numpy as anp
from autograd.numpy.numpy_vjps import unbroadcast, repeat_to_match_shape
from autograd.numpy.numpy_jvps import broadcast


def axis_arg(ax):
    return None if ax["k"] == "none" else (ax["a"] if ax["k"] == "int" else tuple(ax["t"]))


def run(c):
    o = dict(c)
    o["err"] = ""
    try:
        t, r = tuple(c["t"]), tuple(c["r"])
        if c["kind"] == "unbroadcast":
            G = onp.array(c["input"], dtype=float).reshape(r)
            got = unbroadcast(G, anp.metadata(onp.zeros(t)))
        elif c["kind"] == "broadcast":
            X = onp.array(c["input"], dtype=float).reshape(t)
            got = broadcast(X, onp.zeros(r))
        else:
            ax = axis_arg(c["ax"])
            gshape = onp.sum(onp.zeros(t), axis=ax, keepdims=c["keep"]).shape
            g = onp.array(c["input"], dtype=float).reshape(gshape)
            got, reps = repeat_to_match_shape(g, t, float, ax, c["keep"])
            o["reps"] = int(reps)
        got = onp.asarray(got)
        o["gotshape"] = list(got.shape)
        o["got"] = [int(v) for v in got.ravel()]
    except Exception as ex:     # noqa
        o["err"] = type(ex).__name__ + ": " + str(ex)[:120]
        o["got"], o["gotshape"] = [], [-1]
    o.setdefault("reps", 0)
    return o


def main():
    cases = json.load(open(sys.argv[1]))
    with open(sys.argv[2], "w") as f:
        for c in cases:
            f.write(json.dumps(run(c)) + "\n")


if __name__ == "__main__":
    main()
