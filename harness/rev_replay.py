"""Replay of TLC-enumerated computation graphs on the real autograd (reverse + forward mode).

usage: rev_replay.py <cases.json> <traces.ndjson>

A case is {"id", "args", "session": [{"g": int, "fault": int}], "api": int, "builtin": bool, "ps", "live"}.
Every graph node becomes a call of a logging primitive registered through the public autograd.extend API
(or, for builtin cases, an expression over autograd.numpy operators).  The recorded events use the
vocabulary of spec/trace/TraceRev.tla; values are exact small integers carried in float64 arrays of
shape (2,) whose second component is always twice the first (so that positions matter).
"""
import json
import sys
import warnings

import numpy as onp

import autograd.numpy as anp
from autograd import make_vjp, make_jvp, jacobian
import autograd.numpy as np
from autograd.core import SparseObject, vspace
from autograd.extend import primitive, defvjp, defvjp_argnum, defvjp_argnums, defjvp, defjvp_argnum, defjvp_argnums

warnings.simplefilter("ignore")


class InjectedFault(Exception):
    pass


def weight(k, j, kd):          # must agree with Dags!Weight (j is 1-based)
    return 1 if kd == "alias" else 2 + ((3 * k + j) % 5)


_READ_ONLY = True      # every fourth case runs with writeable caller arrays (snapshots only): a read-only flag changes NumPy's own
                       # copy decisions (np.require, ufunc.at) and can hide an in-place write into caller memory


def frozen(a):
    a = onp.array(a, dtype=float)
    if _READ_ONLY:
        a.flags.writeable = False
    return a


IDX_FORMS = [lambda: onp.array([0, 1]), lambda: slice(None), lambda: Ellipsis, lambda: onp.array([True, True]),
             lambda: [0, 1], lambda: slice(0, 2, 1)]


class Run:
    def __init__(self, case):
        self.case = case
        self.args = case["args"]
        self.n = len(self.args)
        self.events = []
        self.fevents = []
        self.call_applies = 0
        self.fault_at = 0
        self.consts = {}
        self.prims = {}
        self.stages = 0
        for k in range(2, self.n + 1):
            self.prims[k] = self.make_prim(k)

    # ------------------------------------------------------------------ logging primitives
    def log_apply(self, k, slot, g):
        self.call_applies += 1
        if self.fault_at and self.call_applies == self.fault_at:
            # the application of node k is abandoned half-way: its partial record is not a completed spec action
            if self.events and self.events[-1]["e"] == "apply" and self.events[-1]["n"] == k:
                self.events.pop()
            raise InjectedFault()
        g = onp.asarray(g)
        ev = {"e": "apply", "n": k, "g": to_int(g[0]), "g2": to_int(g[1]), "slots": [slot]}
        last = self.events[-1] if self.events else None
        if last and last["e"] == "apply" and last["n"] == k and last["g"] == ev["g"] and last["g2"] == ev["g2"] \
                and slot not in last["slots"] and slot > last["slots"][-1]:
            last["slots"].append(slot)
        else:
            self.events.append(ev)

    def contribution(self, k, j, g, argval):
        kd = self.args[k - 1][j - 1]["kd"]
        w = weight(k, j, kd)
        if kd == "alias":
            return g
        if kd == "fresh":
            return w * g
        contrib = w * g
        idx = IDX_FORMS[(k + j + self.case.get("api", 0)) % len(IDX_FORMS)]()

        def mut_add(A):
            onp.add.at(A, idx, contrib)
            return A
        return SparseObject(vspace(argval), mut_add)

    def make_prim(self, k):
        slots = self.args[k - 1]
        ws = [weight(k, j + 1, s["kd"]) for j, s in enumerate(slots)]
        run = self

        @primitive
        def lin(*a):
            return sum(w * x for w, x in zip(ws, a))
        api = (self.case.get("api", 0) + k) % 3
        if api == 0:      # defvjp: per-argument rules (fast paths L == 1, L == 2 and the generic path of core.defvjp)
            def mk(j):
                def rule(ans, *a):
                    run.stages += 1

                    def vjp(g):
                        run.log_apply(k, j, g)
                        return run.contribution(k, j, g, a[j - 1])
                    return vjp
                return rule
            defvjp(lin, *[mk(j + 1) for j in range(len(slots))])
        elif api == 1:    # defvjp_argnum
            def maker(argnum, ans, a, kwargs):
                run.stages += 1

                def vjp(g):
                    run.log_apply(k, argnum + 1, g)
                    return run.contribution(k, argnum + 1, g, a[argnum])
                return vjp
            defvjp_argnum(lin, maker)
        else:             # defvjp_argnums
            def maker(argnums, ans, a, kwargs):
                run.stages += 1

                def vjp(g):
                    out = []
                    for i in argnums:
                        run.log_apply(k, i + 1, g)
                        out.append(run.contribution(k, i + 1, g, a[i]))
                    return tuple(out)
                return vjp
            defvjp_argnums(lin, maker)
        # forward mode: alias -> the tangent object itself, otherwise w * tangent
        japi = (self.case.get("api", 0) + 2 * k) % 3

        def flog(j, g):
            gv = onp.asarray(g)
            run.fevents.append({"n": k, "j": j + 1, "g": to_int(gv[0]), "g2": to_int(gv[1])})

        def jrule(j):
            kd = slots[j]["kd"]

            def rule(g, ans, *a):
                flog(j, g)
                return g if kd == "alias" else ws[j] * g
            return rule

        def jone(argnum, g, ans, a, kw):
            flog(argnum, g)
            return g if slots[argnum]["kd"] == "alias" else ws[argnum] * g
        if japi == 0:
            defjvp(lin, *[jrule(j) for j in range(len(slots))])
        elif japi == 1:
            defjvp_argnum(lin, jone)
        else:
            def jall(argnums, gs, ans, a, kw):
                tot = None
                for i, g in zip(argnums, gs):
                    flog(i, g)
                    t = g if slots[i]["kd"] == "alias" else ws[i] * g
                    tot = t if tot is None else tot + t
                return tot
            defjvp_argnums(lin, jall)
        return lin

    # ------------------------------------------------------------------ the program
    def const(self, k, j):
        key = (k, j)
        if key not in self.consts:
            self.consts[key] = frozen([3.0, 5.0])
        return self.consts[key]

    def fun(self, x):
        vals = {1: x}
        for k in range(2, self.n + 1):
            a = [vals[s["p"]] if s["p"] > 0 else self.const(k, j + 1) for j, s in enumerate(self.args[k - 1])]
            if self.case.get("builtin"):
                vals[k] = self.builtin_node(k, a)
            else:
                vals[k] = self.prims[k](*a)
        return vals[self.n]

    def builtin_node(self, k, a):
        tot = None
        for j, s in enumerate(self.args[k - 1]):
            kd = s["kd"]
            w = weight(k, j + 1, kd)
            if kd == "const":
                t = w * a[j]
            elif kd == "alias":
                t = a[j]
            elif kd == "fresh":
                t = w * a[j]
            else:
                idx = IDX_FORMS[(k + j + 1 + self.case.get("api", 0)) % len(IDX_FORMS)]()
                t = w * a[j][idx]
            tot = t if tot is None else tot + t
        if len(self.args[k - 1]) == 1 and self.args[k - 1][0]["kd"] == "alias":
            tot = tot + 0.0          # one recorded op per graph node (add with a scalar: the rule hands back g itself)
        return tot

    # ------------------------------------------------------------------ the session
    def run(self):
        global _READ_ONLY
        _READ_ONLY = self.case["id"] % 4 != 3
        x = frozen([1.0, 2.0])
        snap_x = x.copy()
        out = {"id": self.case["id"], "args": self.args, "opaque": bool(self.case.get("builtin"))}
        try:
            vjp, val = make_vjp(self.fun)(x)
        except Exception as ex:     # noqa
            out["events"] = [{"e": "error", "where": "trace", "type": type(ex).__name__, "msg": str(ex)[:200]}]
            out["jvp"], out["jvp2"], out["val"] = 0, 0, 0
            out["val2"] = 0
            out["fevents"], out["fwd_intact"] = [], False
            return out
        out["val"] = to_int(onp.asarray(val)[0])
        out["val2"] = to_int(onp.asarray(val)[1])
        out["stages"] = self.stages
        held = []                  # (result object, snapshot) of earlier calls
        cots = []
        for c in self.case["session"]:
            g = frozen([c["g"], 2 * c["g"]])
            if self.case.get("intcot"):
                # a cotangent of integer dtype is still a cotangent: accumulation must not happen in its dtype
                g = onp.array([c["g"], 2 * c["g"]], dtype=onp.int64)
                g.flags.writeable = not _READ_ONLY
            cots.append((g, g.copy()))
            self.events.append({"e": "call", "g": c["g"]})
            self.call_applies = 0
            self.fault_at = c.get("fault", 0)
            try:
                r = vjp(g)
                ra = onp.asarray(r)
                ev = {"e": "ret", "r": to_int(ra[0]), "r2": to_int(ra[1]), "shape": list(ra.shape)}
                held.append((r, onp.array(ra, copy=True)))
            except InjectedFault:
                ev = {"e": "raise"}
            except Exception as ex:     # noqa
                ev = {"e": "error", "where": "vjp", "type": type(ex).__name__, "msg": str(ex)[:200]}
            ev["intact"] = bool(onp.array_equal(x, snap_x)
                                and all(onp.array_equal(a, b) for a, b in cots)
                                and all(onp.array_equal(c_, [3.0, 5.0]) for c_ in self.consts.values())
                                and all(onp.array_equal(onp.asarray(a), b) for a, b in held))
            self.events.append(ev)
        self.fault_at = 0
        out["events"] = self.events
        # forward mode on the same program: same Jacobian
        self.fevents = []
        try:
            v = frozen([1.0, 2.0])
            pv, t = make_jvp(self.fun)(x)(v)
            out["fevents"] = list(self.fevents)
            t = onp.asarray(t)
            out["jvp"], out["jvp2"] = to_int(t[0]), to_int(t[1])
            out["fwd_intact"] = bool(onp.array_equal(v, [1.0, 2.0]) and onp.array_equal(x, snap_x))
        except Exception as ex:     # noqa
            out["jvp"], out["jvp2"], out["fwd_intact"] = -1, -1, False
            out["fevents"] = list(self.fevents)
            out["fwd_error"] = type(ex).__name__ + ": " + str(ex)[:200]
        # second order on the same graph (built-in operators only): z = sum(F(x)**2) with F = ps * x, so the Hessian is 2 ps^2 I and every
        # Hessian-vector product is 2 ps^2 v, whatever the order of the two differentiations.  The inner backward pass then runs on
        # cotangents that are traced values of the outer differentiation (the accumulation protocol itself is being differentiated).
        out["hvp"] = []
        ps = self.case.get("ps")
        if ps is not None and abs(ps) < 2 ** 13 and self.case["id"] % 2 == 0:
            try:
                from autograd import grad
                vv = onp.array([1.0, 2.0])

                def F2(z):
                    vals = {1: z}
                    for k in range(2, self.n + 1):
                        a = [vals[s["p"]] if s["p"] > 0 else self.const(k, j + 1) for j, s in enumerate(self.args[k - 1])]
                        vals[k] = self.builtin_node(k, a)
                    return np.sum(vals[self.n] ** 2)
                g1 = grad(F2)
                rr = onp.asarray(grad(lambda z: np.sum(g1(z) * vv))(x))
                fr = onp.asarray(make_jvp(g1)(x)(vv)[1])
                rf = onp.asarray(grad(lambda z: make_jvp(F2)(z)(vv)[1])(x))
                # ... and the first-order gradient as computed WHILE an outer differentiation is tracing it: 2 ps F(x)  (F = ps x + constants)
                gt = onp.asarray(make_vjp(g1)(x)[1])
                out["hvp"] = [to_int(rr[0]), to_int(rr[1]), to_int(fr[0]), to_int(fr[1]), to_int(rf[0]), to_int(rf[1]), to_int(gt[0]), to_int(gt[1])]
            except Exception as ex:     # noqa
                out["hvp"] = [-1, -1, -1, -1, -1, -1, -1, -1]
                out["hvp_error"] = type(ex).__name__ + ": " + str(ex)[:200]
        # one closure mapped over a whole basis (differential_operators.jacobian)
        if self.case.get("jac"):
            try:
                self.events_backup, self.events = self.events, []
                J = onp.asarray(jacobian(self.fun)(x))
                self.events = self.events_backup
                out["jac"] = [to_int(J[0, 0]), to_int(J[0, 1]), to_int(J[1, 0]), to_int(J[1, 1])]
            except Exception as ex:     # noqa
                self.events = self.events_backup
                out["jac"] = [-1, -1, -1, -1]
                out["jac_error"] = type(ex).__name__ + ": " + str(ex)[:200]
        else:
            out["jac"] = []
        return out


def to_int(v):
    f = float(v)
    if f != f or abs(f) >= 2 ** 30:
        return -(2 ** 30)
    i = int(round(f))
    return i if i == f else -(2 ** 30) + 1


def main():
    cases = json.load(open(sys.argv[1]))
    with open(sys.argv[2], "w") as out:
        for c in cases:
            out.write(json.dumps(Run(c).run()) + "\n")


if __name__ == "__main__":
    main()
