"""Replay of TLC-enumerated call configurations (spec/rules/RuleSpace.tla) on the real autograd.

usage: rule_replay.py <cfgs.json> <obs.ndjson>

For every configuration: build the call, take the realified Jacobian W of the PLAIN NumPy function at a generic point
(exact differences if the map is affine, a 4th-order stencil checked for stability otherwise), take the full reverse-mode
matrix R (rows conj(vjp(conj g)) over the cotangent basis) and forward-mode matrix F (columns jvp(v) over the tangent
basis) from autograd, plus structures, primal values, tracer leaks, input integrity, linearity.  Differences are logged
as integers D = round(diff / max(1, |W|) * 2^20) (only non-zero entries), which spec/trace/TraceContract.tla judges.
"""
import hashlib
import json
import math
import sys
import warnings

import numpy as onp

import autograd.numpy as np
from autograd import make_vjp, make_jvp, grad, value_and_grad
from autograd.core import vspace
from autograd.tracer import isbox
import autograd.builtins as abuiltins

from rule_build import build, Skip, raw_value

# "--warnings-error": every warning is an exception (C19: "... or from a warning promoted to an error"); whether a call warns must not
# depend on what ran before it in the same process
warnings.simplefilter("error" if "--warnings-error" in sys.argv[3:] else "ignore")
if "--warnings-error" not in sys.argv[3:]:
    onp.seterr(all="ignore")        # (with warnings as errors NumPy's default error modes stay: its RuntimeWarnings are raised too)

Q = float(2 ** 20)
TOL_ADJ = 1e-11


# ----------------------------------------------------------------------------- realification helpers
def realify(z):
    z = onp.asarray(z)
    if onp.iscomplexobj(z):
        return onp.concatenate([onp.real(z).ravel(), onp.imag(z).ravel()]).astype(float)
    return onp.asarray(z, dtype=float).ravel()


def unreal(v, like):
    like = onp.asarray(like)
    if onp.iscomplexobj(like):
        n = like.size
        return (v[:n] + 1j * v[n:]).reshape(like.shape).astype(like.dtype)
    return v.reshape(like.shape).astype(like.dtype if like.dtype.kind == "f" else float)


def basis(like):
    """standard basis of the real vector space the value lives in (e_k, and i e_k for complex values)"""
    n = realify(like).size
    out = []
    for k in range(n):
        e = onp.zeros(n)
        e[k] = 1.0
        out.append(unreal(e, like))
    return out


def struct(v):
    """structure of a value as the properties mean it: shape, real/complex, dtype"""
    if isinstance(v, (tuple, list)):
        return {"seq": [struct(x) for x in v]}
    a = onp.asarray(v)
    return {"shape": list(a.shape), "kind": "c" if a.dtype.kind == "c" else ("f" if a.dtype.kind == "f" else a.dtype.kind),
            "dtype": str(a.dtype)}


def has_box(v):
    if isbox(v):
        return True
    if isinstance(v, (tuple, list)):
        return any(has_box(x) for x in v)
    if isinstance(v, dict):
        return any(has_box(x) for x in v.values())
    if isinstance(v, onp.ndarray) and v.dtype == object:
        return any(has_box(x) for x in v.ravel())
    return False


def pack(x, was_scalar):
    return x


# ----------------------------------------------------------------------------- Jacobian of the plain NumPy function
def numpy_jacobian(f, x):
    """returns (W, y0, exact?) or raises Skip("irregular")"""
    y0 = onp.asarray(f(x))
    xr = realify(x)
    m, n = realify(y0).size, xr.size

    def g(v):
        # (a 0-d ARRAY stays a 0-d array: x[()] and x[None] are valid for it, not for a Python float)
        return realify(f(unreal(v, x) if onp.ndim(x) or onp.iscomplexobj(x) or isinstance(x, onp.ndarray) else float(v[0])))
    base = g(xr)
    # affine test: g(x + d1 + d2) - g(x + d1) - g(x + d2) + g(x) == 0 for two generic directions, and homogeneity
    rs = onp.random.RandomState(7)
    affine = True
    for _ in range(2):
        d1, d2 = rs.uniform(-0.7, 0.7, n), rs.uniform(-0.7, 0.7, n)      # never integer steps: floor(x + 1) = floor(x) + 1
        try:
            t = g(xr + d1 + d2) - g(xr + d1) - g(xr + d2) + base
            u = g(xr + 2 * d1) - 2 * g(xr + d1) + base
        except Exception:
            affine = False
            break
        scale = max(1.0, float(onp.max(onp.abs(base))) if base.size else 1.0)
        if not (onp.all(onp.isfinite(t)) and onp.all(onp.isfinite(u)) and onp.max(onp.abs(t), initial=0) < 1e-9 * scale
                and onp.max(onp.abs(u), initial=0) < 1e-9 * scale):
            affine = False
            break
    W = onp.zeros((m, n))
    if affine:
        # exact differences along every coordinate with two different irrational steps: a map that is only LOCALLY affine
        # (max, sort, clip, ... at a generic point) is unmasked when the two disagree, and goes to the stencil instead
        W2 = onp.zeros((m, n))
        for i in range(n):
            d = onp.zeros(n)
            d[i] = 0.6180339887498949
            W[:, i] = (g(xr + d) - base) / 0.6180339887498949
            d[i] = -0.2718281828459045
            W2[:, i] = (g(xr + d) - base) / -0.2718281828459045
        if onp.all(onp.isfinite(W)) and onp.max(onp.abs(W - W2) / onp.maximum(1.0, onp.abs(W)), initial=0) < 1e-9:
            return W, y0, True
        W = onp.zeros((m, n))

    def stencil(h):
        J = onp.zeros((m, n))
        for i in range(n):
            d = onp.zeros(n)
            d[i] = h
            J[:, i] = (-g(xr + 2 * d) + 8 * g(xr + d) - 8 * g(xr - d) + g(xr - 2 * d)) / (12 * h)
        return J
    W1, W2 = stencil(1e-3), stencil(5e-4)
    if not (onp.all(onp.isfinite(W1)) and onp.all(onp.isfinite(W2))):
        raise Skip("irregular")
    if onp.max(onp.abs(W1 - W2) / onp.maximum(1.0, onp.abs(W1)), initial=0) > 1e-8:
        raise Skip("irregular")        # a kink or jump nearby, or not smooth enough for the reference: not a regular point
    return W2, y0, False


def dmat(A, W, tol_scale=1.0):
    """non-zero entries of D = round((A - W) / max(1, |W|) * 2^20), as [[i, j, d], ...] (at most 6) and their count"""
    D = (A - W) / onp.maximum(1.0, onp.abs(W)) * Q * tol_scale
    D = onp.where(onp.isfinite(D), D, 2.0 ** 30)
    D = onp.clip(onp.rint(D), -2 ** 30, 2 ** 30).astype(onp.int64)
    idx = onp.argwhere(D != 0)
    return [[int(i), int(j), int(D[i, j])] for i, j in idx[:6]], int(len(idx))


# ----------------------------------------------------------------------------- fault injection inside a rule (C19: "k-th operation")
class InjectedFault(Exception):
    pass


class BombArray(onp.ndarray):
    """a cotangent that raises at the k-th NumPy operation applied to it (or to anything computed from it)"""
    count = [0]

    def __array_ufunc__(self, ufunc, method, *inputs, **kwargs):
        BombArray.count[0] -= 1
        if BombArray.count[0] <= 0:
            raise InjectedFault("fault injected into the backward rule")
        plain = tuple(onp.asarray(i).view(onp.ndarray) if isinstance(i, BombArray) else i for i in inputs)
        if "out" in kwargs:
            kwargs["out"] = tuple(onp.asarray(o_).view(onp.ndarray) if isinstance(o_, BombArray) else o_ for o_ in kwargs["out"])
        res = getattr(ufunc, method)(*plain, **kwargs)
        return res.view(BombArray) if isinstance(res, onp.ndarray) and type(res) is onp.ndarray else res


def inject_faults(vjp, first_g, row0):
    """apply the VJP function to a cotangent that raises at its 1st, 2nd, 3rd operation; afterwards the function must answer as before"""
    if not isinstance(first_g, onp.ndarray):
        return None
    for k in (1, 2, 3):
        BombArray.count[0] = k
        try:
            vjp(onp.array(first_g, copy=True).view(BombArray))
        except Exception:     # noqa  (the injected fault, or whatever the engine makes of the foreign array type: both are faults)
            pass
    BombArray.count[0] = 10 ** 9
    try:
        again = realify(onp.conj(vjp(first_g)))
        if again.shape != row0.shape or not onp.array_equal(again, row0, equal_nan=True):
            return "after a fault injected into the backward rule the VJP function answers differently"
    except Exception as ex:     # noqa
        return "after a fault injected into the backward rule the VJP function raises %s" % type(ex).__name__
    return None


FAULTS = "--faults" in sys.argv[3:]


# ----------------------------------------------------------------------------- one observation
def observe(cfg):
    obs = {"id": cfg["id"], "cfg": cfg, "status": "ok"}
    try:
        f, x, info = build(cfg)
    except Skip as s:
        obs["status"] = "skip:" + str(s)
        return obs
    frozen_src = onp.array(x, copy=True) if isinstance(x, onp.ndarray) else x
    kink = bool(info.get("kink"))
    try:
        if kink:
            y0 = onp.asarray(f(x))
            W, exact = onp.zeros((realify(y0).size, realify(x).size)), False
        else:
            W, y0, exact = numpy_jacobian(info.get("f_jac") or info.get("f_numpy", f), info.get("x_jac", x))
            if info.get("f_jac") or "x_jac" in info:
                # the Jacobian is taken of a smooth stand-in (e.g. the identity for a precision-changing cast, whose own differences are
                # rounding noise); the value, shape and dtype of the result are those of the real call
                y0 = onp.asarray(info.get("f_numpy", f)(x))
    except Skip as s:
        obs["status"] = "skip:" + str(s)
        return obs
    except Exception as ex:      # plain NumPy does not accept this call
        obs["status"] = "numpy_rejects:" + type(ex).__name__
        return obs
    obs["exact"] = bool(exact)
    try:
        out_is_array = isinstance(info.get("f_numpy", f)(x), onp.ndarray)      # a 0-d ARRAY result takes a 0-d array cotangent, a float a float
    except Exception:     # noqa
        out_is_array = False
    single = bool(info.get("single"))
    ts = 2.0 ** -10 if single else 1.0          # single-precision operands: entries compared at 2^-10 relative
    obs["in"] = struct(x)
    obs["out"] = struct(y0)
    obs["oshape_np"] = list(onp.shape(y0))
    m, n = W.shape
    xin = x
    if isinstance(x, onp.ndarray):
        xin = onp.array(x, copy=True)
        xin.flags.writeable = False
    # ---------------- reverse mode
    RR = None
    val = None
    v = {"raised": None, "bad": [], "nbad": 0, "struct": None, "primal_eq": True, "box": False}
    try:
        vjp, val = make_vjp(f)(xin)
        v["box"] = has_box(val)
        v["primal_eq"] = bool(onp.shape(val) == onp.shape(y0) and onp.allclose(onp.asarray(val), y0, rtol=1e-12, atol=0, equal_nan=True)
                              and onp.asarray(val).dtype == onp.asarray(y0).dtype)
        rows = []
        st = None
        ncall = 0
        first_g = None
        for g in basis(y0):
            gc = onp.conj(g)
            # every second configuration hands the rule WRITEABLE cotangents (Fortran-ordered when 2-D: the layout LAPACK can work in
            # place on) and compares them with a snapshot afterwards: a read-only flag makes NumPy / SciPy copy and hides an in-place write
            g_snap = None
            if isinstance(gc, onp.ndarray):
                if cfg["id"] % 2 == 1:
                    gc = onp.asfortranarray(gc) if gc.ndim == 2 else onp.array(gc, copy=True)
                    g_snap = onp.array(gc, copy=True)
                else:
                    gc.flags.writeable = False
            garg = gc if onp.ndim(y0) or onp.iscomplexobj(y0) or out_is_array else float(onp.real(gc))
            try:
                r = vjp(garg)
                if g_snap is not None and garg is gc and not onp.array_equal(gc, g_snap, equal_nan=True):
                    v["cot_written"] = True
                    gc[...] = g_snap
            except Exception as ex:     # noqa
                if ncall == 0:
                    raise
                # the SAME VJP function worked for an earlier cotangent and fails for this one: not "unsupported", but not reusable
                v["late"] = "call %d of the VJP function raised %s: %s" % (ncall + 1, type(ex).__name__, str(ex)[:80])
                rows = None
                break
            if ncall == 0:
                first_g = garg
            ncall += 1
            if has_box(r):
                v["box"] = True
            st = struct(r)
            if realify(r).size != n:
                rows = None
                break
            rows.append(realify(onp.conj(r)))
        if ncall == 0 and m == 0:
            # empty output: there is no basis cotangent, but the VJP function must still answer (with a zero of the argument's structure)
            r = vjp(onp.zeros(onp.shape(y0), dtype=onp.asarray(y0).dtype))
            if has_box(r):
                v["box"] = True
            st = struct(r)
        if rows and not v.get("late"):
            # apply the first cotangent once more, after all the others: a VJP function is a function of g only
            try:
                again = realify(onp.conj(vjp(first_g)))
                if again.shape != rows[0].shape or not onp.array_equal(again, rows[0], equal_nan=True):
                    v["late"] = "re-applying the first cotangent after %d calls gives a different result" % ncall
            except Exception as ex:     # noqa
                v["late"] = "re-applying the first cotangent raised %s" % type(ex).__name__
        if info.get("missing") and not v.get("late"):
            try:
                hm, xm = info["missing"]
                vm, _vm = make_vjp(hm)(xm)
                vm(onp.ones(onp.shape(_vm)) if onp.ndim(_vm) else 1.0)
                v["late"] = "an argument without a registered rule was differentiated without raising (a missing rule raises)"
            except Exception:     # noqa
                pass
        if FAULTS and rows and not v.get("late"):
            why = inject_faults(vjp, first_g, rows[0])
            if why:
                v["late"] = why
        if rows and not v.get("late") and not kink:
            # two applications of the function that receive THE SAME cotangent object (the rule of `+` hands its g to both operands):
            # F(x) = f(x) + f(x) has the VJP 2 vjp - unless a rule changes the cotangent it was handed in place
            try:
                g2 = onp.array(first_g, copy=True) if isinstance(first_g, onp.ndarray) else first_g
                vj2, _v2 = make_vjp(lambda z: f(z) + f(z))(xin)
                twice = realify(onp.conj(vj2(g2)))
                if twice.shape == rows[0].shape and not onp.allclose(twice, 2.0 * rows[0], rtol=1e-9 if not single else 1e-3, atol=1e-12, equal_nan=True):
                    v["late"] = "f(x) + f(x): the two applications share one cotangent object and the VJP is not twice the VJP of f"
            except Exception:     # noqa  (outputs that cannot be added: tuples)
                pass
        v["struct"] = st if st is not None else struct(vspace(x).zeros())
        if rows is not None:
            RR = onp.array(rows, dtype=float).reshape(m, n)
            v["digest"] = hashlib.sha1(onp.ascontiguousarray(RR).tobytes()).hexdigest()[:16]
            v["bad"], v["nbad"] = dmat(RR, W, ts)
        elif rows is None:
            v["bad"], v["nbad"] = [[0, 0, 2 ** 30]], 1
    except Exception as ex:     # noqa
        v["raised"] = type(ex).__name__
        v["msg"] = str(ex)[:120]
    if kink and v["raised"] is None:
        # generalised-gradient contract, per output component i: for every direction d, <vjp(e_i), d> lies between the two
        # one-sided directional derivatives of f_i along d (exact for these piecewise-polynomial maps with a small step)
        rs = onp.random.RandomState(11)
        nb, worst = 0, []
        if RR is None or not onp.all(onp.isfinite(RR)):
            nb = 1
        else:
            h = 2.0 ** -20
            xr = realify(x)
            fr = lambda vec: realify(f(unreal(vec, x) if onp.ndim(x) else float(vec[0])))
            base = fr(xr)
            for _ in range(6):
                dvec = rs.uniform(-1.0, 1.0, n)
                dp = (fr(xr + h * dvec) - base) / h
                dm = (base - fr(xr - h * dvec)) / h
                pr_ = RR @ dvec
                lo_, hi_ = onp.minimum(dp, dm), onp.maximum(dp, dm)
                tol = 1e-6 * onp.maximum(1.0, onp.maximum(onp.abs(lo_), onp.abs(hi_)))
                viol = onp.argwhere(~((lo_ - tol <= pr_) & (pr_ <= hi_ + tol))).ravel()
                nb += int(len(viol))
                for i_ in viol[:2]:
                    worst.append([int(i_), round(float(lo_[i_]), 6), round(float(pr_[i_]), 6), round(float(hi_[i_]), 6)])
        v["bad"], v["nbad"] = worst[:3], nb
    obs["vjp"] = v
    # ---------------- forward mode
    FR = None
    j = {"raised": None, "bad": [], "nbad": 0, "struct": None, "primal_eq": True, "box": False}
    try:
        cols = []
        st = None
        for tvec in basis(x):
            if isinstance(tvec, onp.ndarray):
                tvec.flags.writeable = False
            val, t = make_jvp(f)(xin)(tvec if onp.ndim(x) or onp.iscomplexobj(x) or isinstance(x, onp.ndarray) else float(onp.real(tvec)))
            if has_box(val) or has_box(t):
                j["box"] = True
            j["primal_eq"] = j["primal_eq"] and bool(onp.shape(val) == onp.shape(y0) and onp.allclose(onp.asarray(val), y0, rtol=1e-12, atol=0, equal_nan=True))
            st = struct(t)
            if realify(t).size != m:
                cols = None
                break
            cols.append(realify(t))
        j["struct"] = st if st is not None else struct(y0)
        if cols is not None:
            FR = onp.array(cols, dtype=float).reshape(n, m).T
            j["digest"] = hashlib.sha1(onp.ascontiguousarray(FR).tobytes()).hexdigest()[:16]
            j["bad"], j["nbad"] = dmat(FR, W, ts)
        elif cols is None:
            j["bad"], j["nbad"] = [[0, 0, 2 ** 30]], 1
    except Exception as ex:     # noqa
        j["raised"] = type(ex).__name__
        j["msg"] = str(ex)[:120]
    if kink:
        j["bad"], j["nbad"] = [], 0          # forward mode at a kink is only required to be the adjoint of reverse mode (C04)
    obs["jvp"] = j
    # ---------------- adjointness and linearity (oracle-free, 1e-11)
    adj = {"nbad": 0, "bad": [], "lin_vjp": 0, "lin_jvp": 0, "checked": False}
    if RR is not None and FR is not None:
        adj["checked"] = True
        scale = onp.maximum(1.0, onp.maximum(onp.abs(RR), onp.abs(FR)))
        bad = onp.argwhere(onp.abs(RR - FR) / scale > (1e-4 if single else TOL_ADJ))
        adj["nbad"] = int(len(bad))
        adj["bad"] = [[int(a), int(b)] for a, b in bad[:4]]
    rs = onp.random.RandomState(cfg["id"] % 1000)
    try:
        if RR is not None and m > 0:
            c1, c2 = rs.randint(-3, 4, m).astype(float), rs.randint(-3, 4, m).astype(float)
            a_, b_ = 2.0, -3.0
            g12 = unreal(a_ * c1 + b_ * c2, y0)
            lhs = realify(onp.conj(vjp(onp.conj(g12) if onp.ndim(y0) or onp.iscomplexobj(y0) or out_is_array else float(onp.real(g12)))))
            rhs = (a_ * c1 + b_ * c2) @ RR
            adj["lin_vjp"] = int(onp.sum(onp.abs(lhs - rhs) / onp.maximum(1.0, onp.abs(rhs)) > (1e-3 if single else 1e-10)))
        if FR is not None and n > 0:
            c1, c2 = rs.randint(-3, 4, n).astype(float), rs.randint(-3, 4, n).astype(float)
            v12 = unreal(2.0 * c1 - 3.0 * c2, x)
            t = make_jvp(f)(xin)(v12 if onp.ndim(x) or onp.iscomplexobj(x) or isinstance(x, onp.ndarray) else float(onp.real(v12)))[1]
            rhs = FR @ (2.0 * c1 - 3.0 * c2)
            adj["lin_jvp"] = int(onp.sum(onp.abs(realify(t) - rhs) / onp.maximum(1.0, onp.abs(rhs)) > (1e-3 if single else 1e-10)))
    except Exception as ex:     # noqa
        adj["lin_error"] = type(ex).__name__
    # adjointness seen through a linear functional: G(x) = sum(f(x)) - forward mode sums the tangent it was handed (a tangent of the wrong
    # shape that merely broadcasts against the output is summed short), reverse mode pulls the ones back: <1, JVP_G v> = <VJP_G 1, v>
    try:
        if v["raised"] is None and j["raised"] is None and not kink and not onp.iscomplexobj(y0) and not onp.iscomplexobj(x) and m > 0 and n > 0:
            vdir = unreal(onp.cos(onp.arange(n) * 0.9 + 0.4) + 1.2, x)
            vdir = vdir if (onp.ndim(x) or isinstance(x, onp.ndarray)) else float(onp.real(vdir))
            tG = float(make_jvp(lambda z: np.sum(f(z)))(xin)(vdir)[1])
            gG = grad(lambda z: np.sum(f(z)))(xin)
            pair = float(onp.sum(onp.asarray(gG, dtype=float) * onp.asarray(vdir, dtype=float)))
            if abs(tG - pair) > (1e-3 if single else 1e-9) * max(1.0, abs(pair)):
                adj["sum_pair_bad"] = 1
                adj["sum_pairing"] = [tG, pair]
    except Exception as ex:     # noqa
        adj["sum_error"] = type(ex).__name__
    # ---------------- linearity as a *traced* function, at the origin: d/dg vjp(g) at g = 0 is vjp itself (and likewise for the JVP).
    # A rule that is numerically linear but cuts the dependence on g for special values of g (a mask on g == 0, a branch on its sign)
    # is exact at first order and silently wrong as soon as the cotangent is itself differentiated (nested / higher-order use).
    adj["lin0_vjp"], adj["lin0_jvp"], adj["lin0_checked"] = 0, 0, 0
    if not kink and (cfg["id"] % 2 == 0 or cfg["fam"] == "linalg") and not single:
        if RR is not None and m > 0 and not v.get("late"):
            c1 = rs.randint(-3, 4, m).astype(float)
            gdir = onp.conj(unreal(c1, y0))
            sc_out = not (onp.ndim(y0) or onp.iscomplexobj(y0) or out_is_array)
            gdir = float(onp.real(gdir)) if sc_out else gdir
            g0 = 0.0 if sc_out else onp.zeros_like(gdir)
            rhs = c1 @ RR
            try:
                t = make_jvp(vjp)(g0)(gdir)[1]
                lhs = realify(onp.conj(t))
                adj["lin0_checked"] += 1
                adj["lin0_vjp"] = int(lhs.shape != rhs.shape or onp.sum(onp.abs(lhs - rhs) / onp.maximum(1.0, onp.abs(rhs)) > 1e-10))
            except Exception as ex:     # noqa   (a rule without a forward-mode rule of its own: loud, not silent)
                adj["lin0_vjp_skip"] = type(ex).__name__
        if FR is not None and n > 0:
            c1 = rs.randint(-3, 4, n).astype(float)
            vdir = unreal(c1, x)
            sc_in = not (onp.ndim(x) or onp.iscomplexobj(x) or isinstance(x, onp.ndarray))
            vdir = float(onp.real(vdir)) if sc_in else vdir
            v0 = 0.0 if sc_in else onp.zeros_like(vdir)
            rhs = FR @ c1
            try:
                t = make_jvp(lambda vv: make_jvp(f)(xin)(vv)[1])(v0)(vdir)[1]
                lhs = realify(t)
                adj["lin0_checked"] += 1
                adj["lin0_jvp"] = int(lhs.shape != rhs.shape or onp.sum(onp.abs(lhs - rhs) / onp.maximum(1.0, onp.abs(rhs)) > 1e-10))
            except Exception as ex:     # noqa
                adj["lin0_jvp_skip"] = type(ex).__name__
    obs["adj"] = adj
    # ---------------- value transparency (C06)
    pr = {"vg_eq": True, "nest_eq": True, "intact": True, "box": bool(v["box"] or j["box"])}
    try:
        if isinstance(x, onp.ndarray):
            pr["intact"] = bool(onp.array_equal(xin, frozen_src, equal_nan=True))
        if v.get("cot_written"):
            pr["intact"] = False          # a cotangent handed to the VJP function was modified
        # after all the derivative calls: the value make_vjp handed back earlier is still the same (a rule must not write into the stored
        # output of its node), and the function still evaluates to it (nor into the constants the function captured)
        if v["raised"] is None and val is not None and not has_box(val):
            if not (onp.shape(val) == onp.shape(y0) and onp.allclose(onp.asarray(val), y0, rtol=1e-12, atol=0, equal_nan=True)):
                pr["intact"] = False
                pr["written"] = "the value returned by make_vjp changed after the VJP function was called"
        y_again = onp.asarray(info.get("f_numpy", f)(x))
        if not (y_again.shape == onp.shape(y0) and onp.allclose(y_again, y0, rtol=1e-12, atol=0, equal_nan=True)):
            pr["intact"] = False
            pr["written"] = "the function evaluates differently after it was differentiated (a captured constant was modified)"
        # the primal under a depth-2 nesting (a forward trace inside a reverse trace)
        inner = lambda z: make_jvp(f)(z)(vspace(z).ones())[0]
        _vjp2, val2 = make_vjp(inner)(xin)
        pr["nest_eq"] = bool(not has_box(val2) and onp.shape(val2) == onp.shape(y0)
                             and onp.allclose(onp.asarray(val2), y0, rtol=1e-12, atol=0, equal_nan=True))
    except Exception as ex:     # noqa
        pr["nest_raised"] = type(ex).__name__
    # the value autograd.numpy computes on PLAIN arguments against numpy itself (same call template, `np` bound to plain numpy)
    pr["raw_eq"], pr["raw_checked"] = True, False
    try:
        yr = raw_value(cfg)
        pr["raw_checked"] = True
        pr["raw_eq"] = bool(onp.shape(yr) == onp.shape(y0) and onp.allclose(yr, y0, rtol=1e-12, atol=0, equal_nan=True))
        if not pr["raw_eq"]:
            pr["raw_shapes"] = [list(onp.shape(yr)), list(onp.shape(y0))]
    except Skip as sk:
        pr["raw_skip"] = str(sk)[:60]
    obs["primal"] = pr
    if cfg.get("second") and not kink and cfg["kind"] == "rr" and not single:
        try:
            obs["second"] = second_order(f, xin, y0)
        except Exception as ex:     # noqa  a problem of the comparison code itself: not evaluated, counted
            obs["second"] = {"checked": False, "modes": {}, "nbad": 0, "sym_bad": 0, "num_bad": 0, "harness": type(ex).__name__ + ": " + str(ex)[:120]}
    # the differential operators on the same configuration (C09: "the gradient of a real-valued loss of complex parameters ..."): rows of
    # jacobian(f)(x), and grad / elementwise_grad where they apply, must be the rows conj(vjp(e_i)) observed above - complex input kept complex
    obs["ops_bad"] = 0
    try:
        if RR is not None and cfg["kind"] != "rr" and isinstance(x, onp.ndarray) and not onp.iscomplexobj(y0) and 0 < m <= 6 and not kink:
            from autograd import jacobian
            Jop = onp.asarray(jacobian(f)(xin)).reshape((m,) + onp.shape(x))
            got = onp.array([realify(onp.conj(Jop[i_])) for i_ in range(m)])       # row i of jacobian() is vjp(e_i); RR[i] = realify(conj(vjp(e_i)))
            if got.shape != RR.shape or not onp.allclose(got, RR, rtol=1e-9, atol=1e-12, equal_nan=True) or (onp.iscomplexobj(x) and not onp.iscomplexobj(Jop)):
                obs["ops_bad"] = 1
            if m == 1 and not onp.ndim(y0):
                gop = onp.asarray(grad(f)(xin))
                if gop.shape != onp.shape(x) or not onp.allclose(realify(onp.conj(gop)), RR[0], rtol=1e-9, atol=1e-12, equal_nan=True) or (onp.iscomplexobj(x) and not onp.iscomplexobj(gop)):
                    obs["ops_bad"] = 1
    except Exception as ex:     # noqa
        obs["ops_skip"] = type(ex).__name__ + ": " + str(ex)[:80]
    # ambient NumPy state after the calls (C19: no call may leave the floating-point error modes changed, even if a rule raised)
    obs["npstate"] = ",".join("%s=%s" % kv for kv in sorted(onp.geterr().items()))
    return obs


def second_order(f, x, y0):
    """Hessian-vector products of phi = <w, f> by reverse-over-reverse, forward-over-reverse, reverse-over-forward and
    forward-over-forward, compared with each other (1e-9), with the symmetry <u, H v> = <v, H u>, and with a central
    difference of autograd's own first-order gradient (whose exactness is C01's business)."""
    out = {"modes": {}, "nbad": 0, "pairs": [], "checked": False, "sym_bad": 0, "num_bad": 0, "num_checked": False}
    m = onp.size(y0)
    w = onp.cos(onp.arange(m) * 0.7 + 0.3).reshape(onp.shape(y0)) + 1.5
    if onp.iscomplexobj(y0):
        phi = lambda z: np.sum(np.real(w * f(z))) + 0.5 * np.sum(np.imag(w * f(z)))
    else:
        phi = lambda z: np.sum(w * f(z))
    n = onp.size(x)
    rs = onp.random.RandomState(5)
    v = rs.uniform(-1, 1, onp.shape(x)) if onp.ndim(x) else float(rs.uniform(-1, 1))
    u = rs.uniform(-1, 1, onp.shape(x)) if onp.ndim(x) else float(rs.uniform(-1, 1))
    g1 = grad(phi)
    res = {}

    def attempt(name, thunk):
        try:
            r = thunk()
            if has_box(r):
                out["modes"][name] = "box"
                return
            res[name] = onp.asarray(r, dtype=float)
            out["modes"][name] = "ok"
        except Exception as ex:     # noqa
            out["modes"][name] = "raised:" + type(ex).__name__
    attempt("rr", lambda: grad(lambda z: np.sum(g1(z) * v))(x))
    attempt("fr", lambda: make_jvp(g1)(x)(v)[1])
    attempt("rf", lambda: grad(lambda z: make_jvp(phi)(z)(v)[1])(x))
    attempt("ff_u", lambda: make_jvp(lambda z: make_jvp(phi)(z)(v)[1])(x)(u)[1])
    attempt("rr_u", lambda: grad(lambda z: np.sum(g1(z) * u))(x))
    names = [k for k in ("rr", "fr", "rf") if k in res]
    out["checked"] = len(names) >= 2 or ("ff_u" in res and names)
    for i in range(len(names)):
        for j in range(i + 1, len(names)):
            a, b = res[names[i]], res[names[j]]
            if a.shape != b.shape:
                out["nbad"] += 1
                out["pairs"].append(names[i] + "/" + names[j] + ":shape")
                continue
            bad = int(onp.sum(onp.abs(a - b) / onp.maximum(1.0, onp.maximum(onp.abs(a), onp.abs(b))) > 1e-9))
            if bad:
                out["nbad"] += bad
                out["pairs"].append(names[i] + "/" + names[j])
    if "ff_u" in res and names:
        hv = res[names[0]]
        lhs, rhs = float(res["ff_u"]), float(onp.sum(hv * u))
        if abs(lhs - rhs) / max(1.0, abs(rhs)) > 1e-9:
            out["nbad"] += 1
            out["pairs"].append("ff/" + names[0])
    if "rr" in res and "rr_u" in res:
        a, b = float(onp.sum(res["rr"] * u)), float(onp.sum(res["rr_u"] * v))
        if abs(a - b) / max(1.0, abs(a), abs(b)) > 1e-9:
            out["sym_bad"] = 1
    if names:
        try:
            h1, h2 = 1e-3, 5e-4
            st = lambda h: (-onp.asarray(g1(x + 2 * h * v)) + 8 * onp.asarray(g1(x + h * v)) - 8 * onp.asarray(g1(x - h * v)) + onp.asarray(g1(x - 2 * h * v))) / (12 * h)
            n1, n2 = st(h1), st(h2)
            if onp.all(onp.isfinite(n1)) and onp.max(onp.abs(n1 - n2) / onp.maximum(1.0, onp.abs(n1)), initial=0) < 1e-7:
                out["num_checked"] = True
                hv = res[names[0]]
                out["num_bad"] = int(onp.sum(onp.abs(hv - n2) / onp.maximum(1.0, onp.abs(n2)) > 2e-6)) if hv.shape == n2.shape else 1
        except Exception:
            pass
    return out


def main():
    cfgs = json.load(open(sys.argv[1]))
    with open(sys.argv[2], "w") as out:
        for c in cfgs:
            try:
                o = observe(c)
            except Exception as ex:     # noqa  harness problem: reported, never a verdict
                import traceback
                o = {"id": c["id"], "cfg": c, "status": "harness_error:" + type(ex).__name__ + ":" + traceback.format_exc()[-600:]}
            out.write(json.dumps(o) + "\n")


if __name__ == "__main__":
    main()
