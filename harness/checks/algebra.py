"""C13: vector-space axioms for every differentiable value type (spec/algebra/VSpaceAlg.tla)."""
import json
import os
import random
import time

import vlib

CFG = "CONSTANTS Depth = %d Export = %s\nSPECIFICATION Spec\nINVARIANT Axioms\nINVARIANT Typed\n"


def c10_vspace(verdict, seed):
    """C10 on the vector-space layer (TraceVSpace!Ownership): mut_add never writes into the vector that is added, mut_add(None, x) is
    fresh, accumulation into a caller-built vector gives x + y; all spaces of depth 1 incl. containers with immutable scalar leaves"""
    e = vlib.tlc_must_pass(vlib.run_tlc("MCVSpace", cfg=CFG % (1, "TRUE"), workers=1, timeout=3000, tag="MCVSpace-export"), "VSpace export")
    cases = [p for p in e.printed if isinstance(p, dict) and "sp" in p]
    rng = random.Random(seed)
    by_sp = {}
    for c in cases:
        by_sp.setdefault(json.dumps(c["sp"], sort_keys=True), []).append(c)
    cases = []
    for k in sorted(by_sp):
        grp = by_sp[k]
        rng.shuffle(grp)
        cases += grp[:max(3, 1500 // len(by_sp))]
    for i, c in enumerate(cases):
        c["id"] = i + 1
    obs, files = vlib.parallel_replay("vs_replay.py", [{k: c[k] for k in ("id", "sp", "x", "y", "z", "a", "b")} for c in cases], nproc=14, tag="vs10")
    accepted, g2, d2, _w, _inv = vlib.parallel_validate("TraceVSpace", files, cfg="SPECIFICATION Spec\n", njvm=14, env={"PROP": "C10"})
    for o in obs:
        why = []
        if o["err"]:
            why.append(o["err"])
        else:
            c = cases[o["id"] - 1]
            if not o.get("fresh"):
                why.append("mut_add(None, x) is not a fresh copy of x")
            if not o.get("x_intact"):
                why.append("an argument was modified")
            if not o.get("y_intact"):
                why.append("mut_add(x, y) wrote into y")
            if o.get("mut_add3") != c["add3"] or o.get("mut_add_xy") != c["add"]:
                why.append("in-place accumulation differs from addition")
        if not vlib.reconcile("vector-space observation %d %s" % (o["id"], why), o["id"] in accepted, not why) and not why:
            why = [vlib.UNNAMED]
        if why:
            verdict.violation({"space": json.dumps(o["sp"]), "layer": "vspace"}, {"reason": why, "space": o["sp"], "x": o["x"], "y": o["y"]})
    return {"states": e.distinct + d2, "transitions": e.generated + g2, "cases": len(obs), "accepted": len(accepted)}


def c13(tier, seed, replay=None):
    t0 = time.time()
    quick = tier == "quick"
    verdict = vlib.Verdict("C13")
    depth = 1 if quick else 2
    r = vlib.tlc_must_pass(vlib.run_tlc("MCVSpace", cfg=CFG % (depth, "FALSE"), workers=16, timeout=3000), "VSpace axioms")
    states, trans = r.distinct, r.generated
    e = vlib.tlc_must_pass(vlib.run_tlc("MCVSpace", cfg=CFG % (depth, "TRUE"), workers=1, timeout=3000, tag="MCVSpace-export"), "VSpace export")
    cases = [p for p in e.printed if isinstance(p, dict) and "sp" in p]
    n_all = len(cases)
    rng = random.Random(seed)
    if quick and len(cases) > 4000:
        # keep every space at least with a few vector choices
        by_sp = {}
        for c in cases:
            by_sp.setdefault(json.dumps(c["sp"], sort_keys=True), []).append(c)
        cases = []
        for k in sorted(by_sp):
            grp = by_sp[k]
            rng.shuffle(grp)
            cases += grp[:max(4, 4000 // len(by_sp))]
    for i, c in enumerate(cases):
        c["id"] = i + 1
    work = [{k: c[k] for k in ("id", "sp", "x", "y", "z", "a", "b")} for c in cases]
    obs, files = vlib.parallel_replay("vs_replay.py", work, nproc=14, tag="vs")
    accepted, g2, d2, _w, _inv = vlib.parallel_validate("TraceVSpace", files, cfg="SPECIFICATION Spec\n", njvm=14, env={"PROP": "C13"})
    states += d2
    trans += g2
    by_id = {o["id"]: o for o in obs}
    exp = {c["id"]: c for c in cases}
    for oid in sorted(set(by_id) - accepted):
        o, c = by_id[oid], exp[oid]
        why = []
        if o["err"]:
            why.append(o["err"])
        else:
            for k in ("add", "add3", "smul", "inner", "cov", "zeros", "ones", "size", "basis"):
                if o.get(k) != c[k]:
                    why.append("%s: observed %s, algebra gives %s" % (k, o.get(k), c[k]))
            if o.get("mut_add3") != c["add3"]:
                why.append("mut_add accumulation gives %s, addition gives %s" % (o.get("mut_add3"), c["add3"]))
            if o.get("mut_add_xy") != c["add"]:
                why.append("mut_add(x, y) into a caller-built vector gives %s, x + y is %s" % (o.get("mut_add_xy"), c["add"]))
            if not o.get("y_intact"):
                why.append("mut_add(x, y) wrote into y")
            if not o.get("fresh"):
                why.append("mut_add(None, x) is not a fresh copy of x")
            if not o.get("x_intact"):
                why.append("an argument was modified")
            if o.get("covcov") != o["x"]:
                why.append("covector is not an involution")
            if not o.get("inner_scaled_ok", True):
                why.append("inner product of extended-precision leaves loses range / precision (<2^600 x, 2^600 y> != 2^1200 <x, y>)")
            if not o.get("closed", True):
                why.append("a vector returned by an operation of the space does not lie in that space (container type %s or space differs)" % (o.get("named") or "-"))
            if o.get("inner_yx") != o.get("inner") or not o.get("inner_real"):
                why.append("inner product not symmetric / not real")
            if not why:
                why.append("space equality (==, reversed ==, !=): %s" % [(json.dumps(q["sp"]), q["eq"], q["eq_rev"], q.get("ne")) for q in o.get("eqs", [])])
        lf = _first_leaf(o["sp"])
        verdict.violation({"space_kind": o["sp"]["k"], "dtype": lf["dt"] if lf else "-", "shape": lf["shape"] if lf else []},
                          {"reason": why, "space": o["sp"], "x": o["x"], "y": o["y"], "observed": {k: o.get(k) for k in ("add", "smul", "inner", "cov", "size")}})
    # mirror: an accepted observation must agree with the exported model values
    for oid in accepted:
        o, c = by_id[oid], exp[oid]
        if o["err"] or any(o.get(k) != c[k] for k in ("add", "add3", "smul", "inner", "cov", "zeros", "ones", "size", "basis")):
            raise vlib.MachineryError("TLC accepted observation %d but it differs from the exported model values" % oid)
    spaces = {json.dumps(c["sp"], sort_keys=True) for c in cases}
    coverage = {"states": states, "transitions": trans, "traces_validated_against_impl": len(obs), "traces_accepted": len(accepted),
                "evaluations": len(obs), "distinct_nontrivial": len({json.dumps([c["sp"], c["x"], c["y"]], sort_keys=True) for c in cases if c["nslots"] > 0}),
                "distinct_spaces": len(spaces), "cases_model_checked": n_all,
                "rule": "a case = (space, x, y, z, a, b): spaces = every leaf (shape in {(), (2,), (0,), (1,2)} x dtype in float16/32/64/longdouble/"
                        "complex64/128, Python float/complex, NumPy scalar) and every tuple/list/dict container of <= 2 small leaves (thorough: depth 2); "
                        "vectors = all assignments of {-1,0,2}(+i{0,1}) for one-slot spaces, 5 patterns otherwise; distinct_nontrivial = distinct "
                        "(space, x, y) with at least one slot",
                "exhaustive": not quick or n_all == len(cases),
                "samples": [{"space": cases[i]["sp"], "x": cases[i]["x"], "y": cases[i]["y"], "observed_add": by_id[cases[i]["id"]].get("add")}
                            for i in (0, len(cases) // 2, len(cases) - 1)],
                "known_findings_reobserved": verdict.known_hits}
    rc = verdict.finish()
    vlib.write_evidence("C13", tier, seed, "model_checking", coverage,
                        ["small integer entries are exact in every dtype (float16 included)", "TLC evaluates VSpaceAlg correctly",
                         "container nesting depth <= 2, <= 2 children per container"], time.time() - t0, len(verdict.violations))
    return rc


def _first_leaf(t):
    if t["k"] == "arr":
        return t
    for c in t["items"]:
        r = _first_leaf(c)
        if r is not None:
            return r
    return None


def c06_layers(verdict, seed):
    """C06 above the primitives: every primal / auxiliary value a differential operator hands back (TraceOperators!Transparent) and the
    value of every container program computed while it is differentiated (TraceContainers!Transparent) is the plain call's value"""
    cfg = "CONSTANTS Export = %s\nSPECIFICATION Spec\nINVARIANT Identities\n"
    e = vlib.tlc_must_pass(vlib.run_tlc("MCOperators", cfg=cfg % "TRUE", workers=1, timeout=3000, tag="MCOperators-export"), "operators export")
    prim_ops = ("value_and_grad", "make_vjp", "make_jvp", "grad_and_aux", "make_hvp", "value_and_grad_tuple", "make_vjp_tuple")
    cases = [p for p in e.printed if isinstance(p, dict) and p.get("op") in prim_ops]
    for i, c in enumerate(cases):
        c["id"] = i + 1
    obs, files = vlib.parallel_replay("ops_replay.py", [{k: c[k] for k in ("id", "op", "ins", "outs", "lay", "scale")} for c in cases], nproc=14, tag="ops6")
    accepted, g2, d2, _w, _inv = vlib.parallel_validate("TraceOperators", files, cfg="SPECIFICATION Spec\n", njvm=8, env={"PROP": "C06"})
    states, trans = e.distinct + d2, e.generated + g2
    for o in obs:
        ok = bool(o["err"]) or o["extra_ok"]
        if not vlib.reconcile("operator observation %d" % o["id"], o["id"] in accepted, ok):
            verdict.violation({"op": o["op"], "ins": o["ins"], "outs": o["outs"], "layer": "operators"},
                              {"reason": "the primal / auxiliary value handed back by %s is not the plain call's value (entries, shape, type)" % o["op"],
                               "case": {k: o[k] for k in ("op", "ins", "outs", "lay", "scale")}})
    cfgc = "CONSTANTS Depth = 1 Export = TRUE Pairs = TRUE\nSPECIFICATION Spec\nINVARIANT Laws\nINVARIANT GradSane\n"
    e2 = vlib.tlc_must_pass(vlib.run_tlc("MCContainers", cfg=cfgc, workers=1, timeout=3000, tag="MCContainers"), "containers")
    cs = [p for p in e2.printed if isinstance(p, dict) and "tree" in p]
    rng = random.Random(seed)
    strata = {}
    for c in cs:
        strata.setdefault((c["tree"]["k"], tuple(st["s"] for t in c["prog"] for st in t["acc"]), c["outmode"]), []).append(c)
    cs = []
    for k in sorted(strata, key=str):
        rng.shuffle(strata[k])
        cs += strata[k][:2]
    for i, c in enumerate(cs):
        c["id"] = i + 1
        c["variant"] = i % 4
    obs2, files2 = vlib.parallel_replay("cont_replay.py", cs, nproc=14, tag="cont6")
    keep2 = [o for o in obs2 if not o["err"].startswith("skip:")]
    for o in keep2:
        o["jvp_want"] = "val:%d" % o["jvp_expected"]
    d = vlib.subdir("judge-C06c")
    jf = [vlib.write_ndjson(os.path.join(d, "o%d.ndjson" % k), part) for k, part in enumerate(vlib.chunks(keep2, 8))]
    acc2, g3, d3, _w, _inv = vlib.parallel_validate("TraceContainers", jf, cfg="SPECIFICATION Spec\n", njvm=8, env={"PROP": "C06"})
    for o in keep2:
        ok = bool(o["err"]) or o.get("val_ok", True)
        if not vlib.reconcile("container observation %d" % o["id"], o["id"] in acc2, ok):
            verdict.violation({"tree_kind": o["tree"]["k"], "steps": sorted({st["s"] for t in o["prog"] for st in t["acc"]}), "layer": "containers"},
                              {"reason": "the value of the container program computed while differentiating differs from the plain call's value",
                               "tree": o["tree"], "prog": o["prog"], "outmode": o["outmode"]})
    return {"states": states + e2.distinct + d3, "transitions": trans + e2.generated + g3, "operator_cases": len(obs), "container_cases": len(keep2)}


def c16(tier, seed, replay=None):
    t0 = time.time()
    verdict = vlib.Verdict("C16")
    cfg = "CONSTANTS Export = %s\nSPECIFICATION Spec\nINVARIANT Identities\n"
    r = vlib.tlc_must_pass(vlib.run_tlc("MCOperators", cfg=cfg % "FALSE", workers=16, timeout=3000), "operator identities")
    states, trans = r.distinct, r.generated
    e = vlib.tlc_must_pass(vlib.run_tlc("MCOperators", cfg=cfg % "TRUE", workers=1, timeout=3000, tag="MCOperators-export"), "operators export")
    cases = [p for p in e.printed if isinstance(p, dict) and "op" in p]
    for i, c in enumerate(cases):
        c["id"] = i + 1
    work = [{k: c[k] for k in ("id", "op", "ins", "outs", "lay", "scale")} for c in cases]
    obs, files = vlib.parallel_replay("ops_replay.py", work, nproc=14, tag="ops")
    skipped = [o for o in obs if o["err"].startswith("skip:")]
    keep = [o for o in obs if not o["err"].startswith("skip:")]
    d = vlib.subdir("judge-C16")
    jfiles = [vlib.write_ndjson(os.path.join(d, "o%d.ndjson" % k), part) for k, part in enumerate(vlib.chunks(keep, 8))]
    accepted, g2, d2, _w, _inv = vlib.parallel_validate("TraceOperators", jfiles, cfg="SPECIFICATION Spec\n", njvm=8, env={"PROP": "C16"})
    states += d2
    trans += g2
    exp = {c["id"]: c for c in cases}
    for o in keep:
        e_ = exp[o["id"]]["exp"]
        good = (not o["err"]) and o["shape"] == e_["shape"] and o["flat"] == e_["flat"] and o["extra_ok"]
        unnamed = good and o["id"] not in accepted
        good = vlib.reconcile("operator observation %d" % o["id"], o["id"] in accepted, good)
        if not good:
            why = vlib.UNNAMED if unnamed else o["err"] or ("shape %s, expected %s" % (o["shape"], e_["shape"]) if o["shape"] != e_["shape"] else
                               ("values %s, expected %s" % (o["flat"][:8], e_["flat"][:8]) if o["flat"] != e_["flat"] else "primal / auxiliary value not returned untouched"))
            verdict.violation({"op": o["op"], "ins": o["ins"], "outs": o["outs"], "npos": o["lay"]["npos"], "pos": o["lay"]["pos"], "kw": o["lay"]["kw"]},
                              {"reason": why, "case": {k: o[k] for k in ("op", "ins", "outs", "lay", "scale")}, "observed": {"shape": o["shape"], "flat": o["flat"][:16]},
                               "expected": {"shape": e_["shape"], "flat": e_["flat"][:16]}})
    per_op = {}
    for o in keep:
        per_op[o["op"]] = per_op.get(o["op"], 0) + 1
    coverage = {"states": states, "transitions": trans, "traces_validated_against_impl": len(keep), "traces_accepted": len(accepted),
                "evaluations": len(obs), "distinct_nontrivial": len({(o["op"], str(o["ins"]), str(o["outs"]), str(o["lay"]), o["scale"]) for o in keep}),
                "skipped": {"count": len(skipped), "why": sorted({o["err"] for o in skipped})},
                "per_operator": per_op, "exhaustive": True,
                "rule": "a case = (operator, input shape, output shape, argument layout: number of positional arguments 1..3 x position of the differentiated "
                        "one x keyword argument passed or not, scale); all 29 operators (23 operators and 6 operators-of-operators) x 6 input shapes x 6 output shapes where defined; exact integer "
                        "comparison of shape (out ++ in order) and entries",
                "samples": [{k: o[k] for k in ("op", "ins", "outs", "lay", "shape")} for o in (keep[0], keep[len(keep) // 2], keep[-1])],
                "known_findings_reobserved": verdict.known_hits}
    # the operators inside programs that recover from a failed differentiation (engine model's fault family: an inner operator call
    # raises at some depth, the enclosing differentiated function catches it and calls the operators again): still the ground truth
    from checks import agm
    v2, cov2 = agm.run_agm("C16", tier, seed, [("fault", 2, None)], [("fault", 2, agm.MUT_TOP)],
                           "fault family: grad / make_jvp / nested operators called again after a caught failure of an inner operator call", agm.ASSUME, write=False)
    verdict.violations += v2.violations
    for k_ in ("states", "transitions", "traces_validated_against_impl", "evaluations", "distinct_nontrivial"):
        coverage[k_] += cov2[k_]
    coverage["operators_after_a_caught_failure"] = {k_: cov2[k_] for k_ in ("families", "model_mutants_rejected") if k_ in cov2}
    rc = verdict.finish()
    vlib.write_evidence("C16", tier, seed, "model_checking", coverage,
                        ["the test function is a quadratic map given by fixed integer tensors; its Jacobian and Hessian are computed symbolically in Operators.tla",
                         "multigrad_dict needs the funcsigs package, which is not installed here: skipped and counted",
                         "container-valued argnum (tuple/list) is covered by C12's container checks, not here"], time.time() - t0, len(verdict.violations))
    return rc


def c12(tier, seed, replay=None):
    t0 = time.time()
    quick = tier == "quick"
    verdict = vlib.Verdict("C12")
    cfg = "CONSTANTS Depth = %d Export = %s Pairs = %s\nSPECIFICATION Spec\nINVARIANT Laws\nINVARIANT GradSane\n"
    rng = random.Random(seed)
    states = trans = 0
    cases = []
    notes = []
    for depth, pairs, keep in ([(1, "TRUE", 2500)] if quick else [(1, "TRUE", None), (2, "FALSE", 30000)]):
        e = vlib.tlc_must_pass(vlib.run_tlc("MCContainers", cfg=cfg % (depth, "TRUE", pairs), workers=1, timeout=3000, tag="MCContainers"), "containers")
        states += e.distinct
        trans += e.generated
        cs = [p for p in e.printed if isinstance(p, dict) and "tree" in p]
        n_all = len(cs)
        if keep and len(cs) > keep:
            # stratify by (tree kind, first step kind, outmode)
            strata = {}
            for c in cs:
                k = (c["tree"]["k"], tuple(st["s"] for t in c["prog"] for st in t["acc"]), c["outmode"], len(c["prog"]), c.get("whole"))
                strata.setdefault(k, []).append(c)
            cs = []
            keys = sorted(strata, key=str)
            per = max(1, keep // len(keys))
            for k in keys:
                rng.shuffle(strata[k])
                cs += strata[k][:per]
        notes.append({"depth": depth, "two_term_programs": pairs == "TRUE", "cases_model_checked": n_all, "replayed": len(cs)})
        cases += cs
    for i, c in enumerate(cases):
        c["id"] = i + 1
        c["variant"] = i % 4
        c["layout"] = (i // 4) % 4        # memory layout of the array leaves: 1-D, Fortran-ordered 2-D, transposed view, strided view
    obs, files = vlib.parallel_replay("cont_replay.py", cases, nproc=14, tag="cont")
    keep_obs = [o for o in obs if not o["err"].startswith("skip:")]
    for o in keep_obs:
        o["jvp_want"] = "val:%d" % o["jvp_expected"]
    d = vlib.subdir("judge-C12")
    jfiles = [vlib.write_ndjson(os.path.join(d, "o%d.ndjson" % k), part) for k, part in enumerate(vlib.chunks(keep_obs, 8))]
    accepted, g2, d2, _w, _inv = vlib.parallel_validate("TraceContainers", jfiles, cfg="SPECIFICATION Spec\n", njvm=8, env={"PROP": "C12"})
    states += d2
    trans += g2
    exp = {c["id"]: c for c in cases}
    for o in keep_obs:
        c = exp[o["id"]]
        why = []
        if o["err"]:
            why.append(o["err"])
        else:
            if o["grad"] != c["grad"]:
                why.append("gradient leaves %s, expected %s (flatten order %s)" % (o["grad"], c["grad"], c["order"]))
            if not o["struct_ok"]:
                why.append("gradient does not have the argument's structure / leaf shapes")
            if o["jvp"] not in ("skip", "raised", o["jvp_want"]):
                why.append("forward mode gives %s, expected %s" % (o["jvp"], o["jvp_want"]))
            if not o["flat_ok"]:
                why.append("flatten does not list the leaves in traversal / sorted-key order")
            if not o["unflat_ok"]:
                why.append("unflatten(flatten(v)) != v")
            if not o["commute_ok"]:
                why.append("grad(f o unflatten)(flatten x) != flatten(grad f(x))")
            if not o.get("val_ok", True):
                why.append("the value computed while differentiating differs from the plain call's value")
        if not vlib.reconcile("container observation %d %s" % (o["id"], why), o["id"] in accepted, not why) and not why:
            why = [vlib.UNNAMED]
        if why:
            steps = sorted({st["s"] for t in o["prog"] for st in t["acc"]})
            verdict.violation({"tree_kind": o["tree"]["k"], "steps": steps, "outmode": o["outmode"]},
                              {"reason": why, "tree": o["tree"], "prog": o["prog"], "outmode": o["outmode"], "observed_grad": o["grad"]})
    # tuple-valued results of the library itself (named tuples of eigh / eig / svd / slogdet): rule-table machinery, Contract!C12
    from checks import rules
    v2, cov2 = rules.c12_tuples(tier, seed)
    verdict.violations += v2.violations
    states += cov2["states"]
    trans += cov2["transitions"]
    tuple_note = {k: cov2[k] for k in ("families", "not_evaluated", "calls_that_raised", "observations_rejected_by_contract")}
    step_cov = {}
    for o in keep_obs:
        for t in o["prog"]:
            for st in t["acc"]:
                step_cov[st["s"]] = step_cov.get(st["s"], 0) + 1
    coverage = {"states": states, "transitions": trans, "traces_validated_against_impl": len(keep_obs), "traces_accepted": len(accepted),
                "evaluations": len(obs), "distinct_nontrivial": len({json.dumps([o["tree"], o["prog"], o["outmode"]], sort_keys=True) for o in keep_obs if o["prog"]}),
                "families": notes, "named_tuple_results": tuple_note, "access_steps_exercised": step_cov, "forward_mode": {"raised": sum(1 for o in keep_obs if o["jvp"] == "raised"),
                                                                                      "value": sum(1 for o in keep_obs if o["jvp"].startswith("val:"))},
                "exhaustive": not quick,
                "rule": "a case = (tree, program, output mode): trees = every tuple/list of <= 3 leaves and dict of <= 2 (thorough: depth 2 with nested "
                        "tuple/list/dict children and empty containers); program = 0, 1 or 2 weighted accesses, each a chain of access operations "
                        "(index, negative index, slice+index, iteration, unpacking, + and reflected +, dict key/get/items/values), optionally scaled by "
                        "len(); output = scalar or an autograd tuple/list/dict of the terms; leaves are floats and arrays; dicts are also built in "
                        "reversed insertion order; flatten laws checked per case",
                "samples": [{k: o[k] for k in ("tree", "prog", "outmode", "grad", "jvp")} for o in (keep_obs[0], keep_obs[len(keep_obs) // 2], keep_obs[-1])],
                "known_findings_reobserved": verdict.known_hits}
    rc = verdict.finish()
    vlib.write_evidence("C12", tier, seed, "model_checking", coverage,
                        ["every access operation selects one child: the model resolves accesses to leaves and sums weights; integer weights make the comparison exact",
                         "container nesting depth <= 2, arity <= 3"], time.time() - t0, len(verdict.violations))
    return rc


def c14_nondiff(verdict):
    """non-differentiable function set of C14, judged by Dispatch!NdOK; returns a coverage dict"""
    rows, files = vlib.parallel_replay("dispatch_sweep.py", [{"nondiff": True}], nproc=1, tag="nondiff", timeout=900)
    accepted, g2, d2, _w, _inv = vlib.parallel_validate("TraceDispatch", files, cfg="SPECIFICATION Spec\n", njvm=1)
    for row in rows:
        ok = row["plain_eq"] and row["unboxed"] and row["blocks"]
        unnamed = ok and row["id"] not in accepted
        ok = vlib.reconcile("non-differentiable row %s" % row, row["id"] in accepted, ok)
        if not ok:
            why = vlib.UNNAMED if unnamed else row["exc"] or ("value under tracing differs from NumPy's" if not row["plain_eq"] else
                                 ("a tracer was returned" if not row["unboxed"] else "derivative flow is not blocked: d/dx sum(x*f(x)) != f(x)"))
            verdict.violation({"prim": row["name"], "mode": row["mode"], "template": row["template"]}, {"reason": why, "row": row})
    return {"functions": len({r_["name"] for r_ in rows}), "rows": len(rows), "accepted": len(accepted), "states": d2, "transitions": g2}


def c15(tier, seed, replay=None):
    t0 = time.time()
    verdict = vlib.Verdict("C15")
    r = vlib.tlc_must_pass(vlib.run_tlc("MCDispatch", workers=1, timeout=600), "dispatch decision table")
    states, trans = r.distinct, r.generated
    nsh = 14
    shards = [{"shard": k, "nshards": nsh} for k in range(nsh)]
    rows, files = vlib.parallel_replay("dispatch_sweep.py", shards, nproc=nsh, tag="dispatch", timeout=1500)
    # the SciPy-compatible namespaces (autograd.scipy.special / .linalg - which wraps ALL of scipy.linalg - / .signal / .stats.<dist>), swept
    # with the same templates under the tooling interpreter (the repository's own has no SciPy)
    sshards = [{"shard": k, "nshards": 8, "scipy": True} for k in range(8)]
    srows, sfiles = vlib.parallel_replay("dispatch_sweep.py", sshards, nproc=8, tag="dispatch-scipy", timeout=1500, py=vlib.PY_SCIPY)
    rows, files = rows + srows, files + sfiles
    d = vlib.subdir("judge-C15")
    jfiles = [vlib.write_ndjson(os.path.join(d, "r%d.ndjson" % k), part) for k, part in enumerate(vlib.chunks(rows, 8))]
    accepted, g2, d2, _w, _inv = vlib.parallel_validate("TraceDispatch", jfiles, cfg="SPECIFICATION Spec\n", njvm=8)
    states += d2
    trans += g2
    outcomes = {}
    for row in rows:
        key = ("guard:" if row["guard"] else "") + row["outcome"]
        outcomes[key] = outcomes.get(key, 0) + 1
        if row["guard"]:
            ok = row["outcome"] == "raised"
        else:
            ok = not (row["varies"] and row["outcome"] == "zero") and not (row["outcome"] == "derivative" and row["stable"] and not row["agrees"])
        unnamed = ok and row["id"] not in accepted
        ok = vlib.reconcile("dispatch row %s" % row, row["id"] in accepted, ok)
        if not ok:
            why = vlib.UNNAMED if unnamed else ("an unsupported request did not raise: %s returned %s" % (row["name"], row.get("exc"))) if row["guard"] else \
                  ("silently treated as a constant although the NumPy value varies with this argument" if row["outcome"] == "zero"
                   else "returned a derivative that grossly disagrees with a stable finite difference of the NumPy function")
            verdict.violation({"ns": row["ns"], "name": row["name"], "prim": row["name"], "mode": row["mode"], "argpos": row["argpos"], "template": row["template"],
                               "outcome": row["outcome"], "guard": row["guard"], "mode_or_nd": row["mode"]}, {"reason": why, "row": row})
    callables = {(r_["ns"], r_["name"]) for r_ in rows if not r_["guard"]}
    with_float = {(r_["ns"], r_["name"]) for r_ in rows if not r_["guard"] and r_["outcome"] != "nonfloat"}
    coverage = {"states": states, "transitions": trans, "traces_validated_against_impl": len(rows), "traces_accepted": len(accepted),
                "evaluations": len(rows), "distinct_nontrivial": len({(r_["ns"], r_["name"], r_["template"], r_["argpos"], r_["mode"]) for r_ in rows
                                                                     if r_["outcome"] in ("derivative", "raised", "zero")}),
                "callables_with_an_accepted_template": len(callables), "callables_with_float_output": len(with_float),
                "guard_cases": sum(1 for r_ in rows if r_["guard"]), "outcomes": outcomes, "exhaustive": False,
                "scipy_namespace_rows": len(srows), "scipy_callables": len({(r_["ns"], r_["name"]) for r_ in srows}),
                "rule": "a row = (exported callable of autograd.numpy/.linalg/.fft/.random or ArrayBox attribute, call template accepted by NumPy, positional "
                        "float argument, mode); varies = the NumPy float output changes under perturbations of 1e-7 and 1e-9 of either sign; plus 20 guard "
                        "cases that must raise; distinct_nontrivial = rows whose outcome is a derivative, a raise or a zero",
                "samples": [rows[0], rows[len(rows) // 2], rows[-1]],
                "known_findings_reobserved": verdict.known_hits}
    # "raises at the point of use INSTEAD of returning a truncated derivative" also for the code that handles the raise: programs of the
    # engine model's fault family differentiate, hit a primitive without a rule (or a raising rule) at some nesting depth, catch the
    # exception inside the enclosing differentiated function and retry - the retried and the enclosing derivative must be the exact ones
    from checks import agm
    v2, cov2 = agm.run_agm("C15", tier, seed, [("fault", 2, None)], [("fault", 2, agm.MUT_TOP)],
                           "fault family of spec/engine/AGMProgs.tla: loud failures at every nesting depth, caught at every enclosing level, then retried",
                           agm.ASSUME, write=False)
    verdict.violations += v2.violations
    for k_ in ("states", "transitions", "traces_validated_against_impl", "evaluations", "distinct_nontrivial"):
        coverage[k_] += cov2[k_]
    coverage["loud_failures_caught_and_retried"] = {k_: cov2[k_] for k_ in ("families", "model_mutants_rejected", "rule") if k_ in cov2}
    rc = verdict.finish()
    vlib.write_evidence("C15", tier, seed, "exploration", coverage,
                        ["19 call templates; callables no template fits are not explored (counted by absence)", "effectful / I/O / RNG-state callables are "
                         "never called (deny list in harness/dispatch_sweep.py)", "derivative agreement is a gross check (1e-2) against finite differences"],
                        time.time() - t0, len(verdict.violations))
    return rc


def c18(tier, seed, replay=None):
    t0 = time.time()
    quick = tier == "quick"
    verdict = vlib.Verdict("C18")
    r = vlib.tlc_must_pass(vlib.run_tlc("MCChecker", workers=1, timeout=600), "check_grads control structure")
    states, trans = r.distinct, r.generated
    n = 40 if quick else 400
    jobs = []
    for modes in (["fwd"], ["rev"], ["fwd", "rev"], ["rev", "fwd"]):
        for order in (1, 2, 3):
            jobs.append({"kind": "paths", "modes": modes, "order": order})
    # default arguments (modes omitted), fresh and after an earlier default-argument call that raised for lack of a forward-mode rule
    for order in (1, 2):
        for pre in (False, True):
            jobs.append({"kind": "paths", "modes": ["fwd", "rev"], "order": order, "default": True, "pre": pre})
    kinds = ["scalar", "array", "complex", "container", "matrix", "outtuple", "outlist", "outdict"]
    for arg in kinds:
        for mode in ("fwd", "rev"):
            if arg == "outdict" and mode == "fwd":
                continue          # autograd's dict constructor has no forward-mode rule
            for order in (1, 2):
                jobs.append({"kind": "correct", "arg": arg, "mode": mode, "order": order, "n": n})
            defects = ["factor", "sign", "entry", "nan"] + (["transpose"] if arg == "matrix" else []) + (["conj"] if arg == "complex" else []) + \
                      (["inf"] if arg in ("array", "scalar") else [])
            for df in defects:
                if arg == "scalar" and df == "entry":
                    continue
                jobs.append({"kind": "defect", "arg": arg, "mode": mode, "defect": df, "where": mode, "order": 1, "n": n})
            if arg != "matrix":
                for df in ("factor", "sign"):
                    jobs.append({"kind": "defect", "arg": arg, "mode": mode, "defect": df, "where": mode + "2", "order": 2, "n": n})
    for i, j in enumerate(jobs):
        j["id"] = i + 1 + (seed % 7) * 1000
    rows, files = vlib.parallel_replay("checker_replay.py", jobs, nproc=14, tag="checker", timeout=3000)
    d = vlib.subdir("judge-C18")
    jfiles = [vlib.write_ndjson(os.path.join(d, "r%d.ndjson" % k), part) for k, part in enumerate(vlib.chunks(rows, 4))]
    accepted, g2, d2, _w, _inv = vlib.parallel_validate("TraceChecker", jfiles, cfg="SPECIFICATION Spec\n", njvm=4)
    states += d2
    trans += g2
    thr = (n - 22) if n >= 400 else (n - 12 if n >= 100 else (n - 8 if n >= 40 else n - 6))
    for row in rows:
        if row["kind"] == "paths":
            ok = row["id"] in accepted        # the set computation lives in TLC only; a mirror would duplicate Checker.tla
            why = "check_grads(modes=%s, order=%d) performed the comparisons %s, which is not the required set (%s)" % (row["modes"], row["order"], row["checks"], row["err"])
        elif row["kind"] == "correct":
            ok = row["rejected"] == 0
            why = "a correct rule was rejected in %d of %d runs %s" % (row["rejected"], row["n"], row["errors"])
        else:
            ok = row["rejected"] >= thr
            why = "a planted defect (%s in %s) was rejected in only %d of %d runs (required with probability >= 0.99)" % (row["defect"], row["where"], row["rejected"], row["n"])
        if row["kind"] != "paths" and ok != (row["id"] in accepted):
            if not vlib.reconcile("checker row %s" % row, row["id"] in accepted, ok):
                ok, why = False, vlib.UNNAMED
        if not ok:
            verdict.violation({"kind": row["kind"], "arg": row.get("arg", "-"), "defect": row.get("defect", "-"), "where": row.get("where", "-"),
                               "mode": row.get("mode", "-")}, {"reason": why, "row": row})
    rej = {"%s/%s/%s/%s" % (r_["arg"], r_["mode"], r_["defect"], r_["where"]): "%d/%d" % (r_["rejected"], r_["n"]) for r_ in rows if r_["kind"] == "defect"}
    coverage = {"evaluations": sum(r_["n"] for r_ in rows), "distinct_nontrivial": len(rows), "states": states, "transitions": trans,
                "traces_validated_against_impl": len(rows), "runs_per_cell": n, "rejection_threshold": thr,
                "rejections_of_planted_defects": rej,
                "false_rejections_of_correct_rules": sum(r_["rejected"] for r_ in rows if r_["kind"] == "correct"),
                "rule": "cells = (argument kind in scalar/array/complex/container/matrix) x (mode) x (order 1, 2) for correct rules and x (defect in wrong "
                        "factor 1.01 / sign / single wrong entry / transpose / missing conjugate; at order 1 or only in the rule's own derivative) for planted "
                        "defects, each run with %d different random projections; plus the set of numerical comparisons performed for 12 (modes, order) "
                        "requests; distinct_nontrivial = number of cells" % n,
                "samples": [rows[0], rows[len(rows) // 2], rows[-1]], "exhaustive": False,
                "known_findings_reobserved": verdict.known_hits}
    rc = verdict.finish()
    vlib.write_evidence("C18", tier, seed, "exploration", coverage,
                        ["the probability statement (>= 0.99) is sampled, not decided: a cell is reported only if the observed rejection count would have "
                         "probability < 1e-9 under the property", "TLC decides only the control structure (Checker.tla: which mode paths are compared)"],
                        time.time() - t0, len(verdict.violations))
    return rc


def misc_part(verdict, kind):
    """autograd.misc (optimizers for C10, fixed_point for C08 / C07): harness/misc_replay.py judged by spec/trace/TraceMisc.tla"""
    cases = []
    if kind == "opt":
        for opt in ("sgd", "rmsprop", "adam"):
            for x0 in ("vec", "mat", "matF", "view", "scalar", "list", "dict"):
                for it in (1, 3):
                    cases.append({"kind": "opt", "opt": opt, "x0": x0, "iters": it})
    else:
        for m in ("newton", "damped", "plain"):
            for arg in ("scalar", "array"):
                cases.append({"kind": "fp", "map": m, "arg": arg})
    for i, c in enumerate(cases):
        c["id"] = i + 1
    obs, files = vlib.parallel_replay("misc_replay.py", cases, nproc=6, tag="misc-" + kind)
    accepted, g2, d2, _w, _inv = vlib.parallel_validate("TraceMisc", files, cfg="SPECIFICATION Spec\n", njvm=2)
    for o in obs:
        fails = ([o["err"]] if o["err"] else []) + [k for k, v in o.items() if v is False]
        if not vlib.reconcile("misc observation %d %s" % (o["id"], fails), o["id"] in accepted, not fails) and not fails:
            fails = [vlib.UNNAMED]
        if fails:
            verdict.violation({"layer": "misc", "kind": kind, "name": o.get("opt") or o.get("map"), "prim": o.get("opt") or "fixed_point"},
                              {"reason": "autograd.misc: " + ", ".join(fails), "observation": o})
    return {"states": d2, "transitions": g2, "cases": len(obs), "accepted": len(accepted)}
