"""C07 / C08 / C14 / C19 (+ engine parts of C03, C06): the autograd abstract machine.

 1. TLC model-checks AGM over program families (ResultIsDen against the polynomial oracle, level discipline, NoLeak),
    and rejects the model mutants (vacuity guard).
 2. The same TLC run exports every program with the machine's result, its trace-id log and its denotational meaning.
 3. harness/agm_replay.py interprets every program on the real autograd.
 4. spec/trace/TraceAGM.tla re-runs the machine on each program and judges the observation: observed = Den (property),
    observed = machine result and trace ids (implementation binding -> DRIFT only).
"""
import json
import os
import random
import time

import vlib

CFG = """CONSTANTS CounterScope = "%(CounterScope)s" ExcPolicy = "%(ExcPolicy)s" TopCmp = "%(TopCmp)s" DepTest = "%(DepTest)s"
CONSTANTS Family = "%(Family)s" Depth = %(Depth)d Export = %(Export)s
SPECIFICATION Spec
INVARIANT ResultIsDen
INVARIANT LevelsStrictlyIncrease
INVARIANT NoStaleBox
INVARIANT NoLeak
"""
TRACE_CFG = """CONSTANTS CounterScope = "thread" ExcPolicy = "leak" TopCmp = ">" DepTest = "id"
SPECIFICATION TSpec
INVARIANT LevelsStrictlyIncrease
INVARIANT NoLeak
"""
BASE = dict(CounterScope="thread", ExcPolicy="leak", TopCmp=">", DepTest="id", Depth=2, Export="FALSE")


def mc(family, depth=2, export=False, workers=16, only_result=False, **switches):
    c = dict(BASE)
    c.update(Family=family, Depth=depth, Export="TRUE" if export else "FALSE")
    c.update(switches)
    cfg = CFG % c
    if only_result:      # mutants must be visible in the RESULT (what a user observes), not only in internal invariants
        cfg = "\n".join(l for l in cfg.splitlines() if not l.startswith("INVARIANT") or "ResultIsDen" in l) + "\n"
    return vlib.run_tlc("MCAGM", cfg=cfg, workers=workers, timeout=3000, tag="MCAGM-" + family)


def export(family, depth=2):
    r = vlib.tlc_must_pass(mc(family, depth, export=True, workers=1), "MCAGM export %s/%d" % (family, depth))
    progs = [p for p in r.printed if isinstance(p, dict) and "prog" in p]
    return progs, r


def mirror(tr, exp):
    """Python-side reading of the same verdict: None if every thread's observation equals Den (where defined)."""
    if not tr.get("reg_ok", True):
        return "a process-global registry (rule tables, notrace sets, box / vspace mappings) was altered by a differentiation call"
    for th, (o, d) in enumerate(zip(tr["obs"], exp["den"])):
        if d["k"] == "unknown":
            continue
        if d["k"] == "exc" and o["k"] != "exc":
            return "thread %d: program must raise, observed %s" % (th + 1, o)
        if d["k"] == "val" and (o["k"] != "val" or o["v"] != d["v"]):
            return "thread %d: observed %s, mathematically correct value is %s" % (th + 1, o, d["v"])
    return None


def run_agm(pid, tier, seed, fams, mutants, rule, assumptions, sample=None, replicas=1, write=True, level_lemma=False, random_n=0, micro=False):
    t0 = time.time()
    lemma = None
    if level_lemma:
        # unbounded-depth lemma behind "highest id = innermost, whatever failed before": TLAPS proof of spec/proof/LevelStack.tla
        ob, proved = vlib.run_tlapm("proof/LevelStack.tla")
        if ob != proved:
            raise vlib.MachineryError("TLAPS: only %d of %d obligations of LevelStack proved" % (proved, ob))
        lemma = {"module": "spec/proof/LevelStack.tla", "theorem": "Spec => []Increasing (trace ids of the open traces strictly increase, for unbounded depth "
                 "and any number of exceptional exits that leave top unrestored)", "obligations": ob, "discharged": proved,
                 "checker_cmd": "tlapm --toolbox 0 0 LevelStack.tla"}
    verdict = vlib.Verdict(pid)
    states = trans = 0
    notes = []
    cases = []
    rng = random.Random(seed)
    for fam, depth, keep in fams:
        progs, r = export(fam, depth)
        if not r.ok:
            raise vlib.MachineryError("model %s/%d failed" % (fam, depth))
        states += r.distinct
        trans += r.generated
        n_all = len(progs)
        if keep and len(progs) > keep:
            idx = sorted(rng.sample(range(len(progs)), keep))
            progs = [progs[i] for i in idx]
        notes.append({"family": fam, "depth": depth, "programs_model_checked": n_all, "programs_replayed": len(progs),
                      "distinct_states": r.distinct, "wall_s": round(r.wall, 1)})
        for p in progs:
            p["family"] = fam
            p["depth"] = depth
            cases.append(p)
    if random_n:
        # seeded random programs beyond the template families (several differentiations per body, derivative values used as points
        # of other differentiations, try / if / call anywhere); screened in Python for 32-bit range, judged by TLC like all others
        import agm_random
        rp = agm_random.programs(seed, random_n)
        for q in rp:
            d = q["screen"]
            cases.append({"prog": q["prog"], "family": "random", "depth": 3, "result": None, "log": None, "sched": [],
                          "den": [{"k": "val", "v": d[1]} if d[0] == "val" else {"k": "exc"}]})
        notes.append({"family": "random", "depth": 3, "programs_model_checked": 0, "programs_replayed": len(rp),
                      "note": "generated by harness/agm_random.py from VERIF_SEED; the abstract machine and the oracle are evaluated on them by TLC during validation"})
    killed = []
    for fam, depth, sw in mutants:
        r = mc(fam, depth, only_result=True, **sw)
        if r.ok and not r.violated:
            raise vlib.MachineryError("model mutant %s on %s/%d not rejected (vacuity guard)" % (sw, fam, depth))
        killed.append({"switch": sw, "family": fam, "rejected_by": r.violated or "TLC evaluation error (crash of the mutated machine)"})
    # every program is replayed `replicas` times under different harness variants (operator vs function call form,
    # registration API of the user primitive, grad() vs make_vjp, single vs repeated application of the VJP function)
    base = cases
    cases = []
    for i, c in enumerate(base):
        v0 = rng.randrange(30)
        for r in range(replicas):
            d = dict(c)
            d["variant"] = (v0 + 11 * r) % 30
            # odd replicas of multi-thread cases: threads are frozen in the middle of machine steps (sched.py, MICRO MODE)
            d["micro"] = (1 + seed * 100003 + 31 * i + r) if (micro and r % 2 == 1 and len(c["prog"]["threads"]) > 1) else 0
            # every second multi-thread case: all threads and nesting levels go through ONE shared grad / make_vjp / make_jvp object
            d["shared_ops"] = bool(micro and len(c["prog"]["threads"]) > 1 and i % 2 == 1)
            # every third multi-thread case: thread 1 runs in the worker's only thread, the others are BORN when the schedule first
            # names them (thread 1 may have traces open then) and are joined as soon as they are done (sched.py, lifecycle mode)
            d["lifecycle"] = bool(micro and len(c["prog"]["threads"]) > 1 and i % 3 == 2)
            cases.append(d)
    for i, c in enumerate(cases):
        c["id"] = i + 1
    # replay (the exported model result / den stay on this side; the worker gets id + prog + variant)
    work = [{"id": c["id"], "prog": c["prog"], "variant": c["variant"], "micro": c.get("micro", 0), "shared_ops": c.get("shared_ops", False), "lifecycle": c.get("lifecycle", False),
             "schedule": c["sched"] if len(c["prog"]["threads"]) > 1 else []} for c in cases]
    traces, files = vlib.parallel_replay("agm_replay.py", work, nproc=14, tag="agm")
    accepted, g2, d2, _w, inv = vlib.parallel_validate("TraceAGM", files, cfg=TRACE_CFG, njvm=14)
    if inv:
        raise vlib.MachineryError("machine invariant violated while re-running programs: %s" % inv)
    states += d2
    trans += g2
    by_id = {t["id"]: t for t in traces}
    exp_by_id = {c["id"]: c for c in cases}
    # DRIFT / UNKNOWN lines
    import re
    drift_ids, unknown_ids = set(), set()
    # parallel_validate only returns ACCEPT ids; re-derive drift from the mirror (cheap, deterministic)
    for t in traces:
        e = exp_by_id[t["id"]]
        if e["result"] is None:
            continue
        for th, o in enumerate(t["obs"]):
            m = e["result"][th]
            same = (m["k"] == "exc" and o["k"] == "exc") or (m["k"] == "val" and o["k"] == "val" and o["v"] == m["v"])
            if not same or t["ids"][th] != e["log"][th]:
                drift_ids.add(t["id"])
            if e["den"][th]["k"] == "unknown":
                unknown_ids.add(t["id"])
    for tid in sorted(set(by_id) - accepted):
        why = mirror(by_id[tid], exp_by_id[tid])
        if why is None:
            vlib.reconcile("program %d" % tid, False, True)
            why = vlib.UNNAMED
        e = exp_by_id[tid]
        verdict.violation({"family": e["family"], "depth": e["depth"], "prog": e["prog"], "variant": e["variant"]},
                          {"reason": why, "observed": by_id[tid]["obs"], "meaning": e["den"], "machine": e["result"],
                           "trace_ids_observed": by_id[tid]["ids"], "trace_ids_machine": e["log"]})
    for tid in sorted(accepted):
        if mirror(by_id[tid], exp_by_id[tid]) is not None:
            raise vlib.MachineryError("TLC accepted program %d but the Python mirror rejects it" % tid)
    for tid in sorted(drift_ids & accepted)[:5]:
        verdict.drift_note("program %d (%s): observation differs from the implementation-shaped machine (result or trace ids) "
                           "although the property holds: obs=%s ids=%s machine=%s ids=%s" %
                           (tid, exp_by_id[tid]["family"], by_id[tid]["obs"], by_id[tid]["ids"], exp_by_id[tid]["result"], exp_by_id[tid]["log"]))
    nontrivial = len({json.dumps([c["prog"], c["sched"] if len(c["prog"]["threads"]) > 1 else []], sort_keys=True)
                      for c in cases if c["id"] not in unknown_ids})
    s_ids = [cases[0]["id"], cases[len(cases) // 2]["id"], cases[-1]["id"]]
    coverage = {
        "states": states, "transitions": trans, "traces_validated_against_impl": len(traces),
        "traces_accepted": len(accepted), "evaluations": len(traces), "distinct_nontrivial": nontrivial,
        "programs_with_oracle_declining": len(unknown_ids), "impl_model_bound": not (drift_ids & accepted),
        "drift_cases": len(drift_ids & accepted),
        "rule": rule, "families": notes, "model_mutants_rejected": killed,
        "exhaustive": all(n["programs_model_checked"] == n["programs_replayed"] for n in notes if n["family"] != "random"),
        "samples": [{"prog": exp_by_id[i]["prog"], "meaning": exp_by_id[i]["den"], "observed": by_id[i]["obs"], "trace_ids": by_id[i]["ids"]} for i in s_ids],
        "known_findings_reobserved": verdict.known_hits,
    }
    if micro:
        ms = [t["micro"] for t in traces if t.get("micro")]
        coverage["mid_step_preemption"] = {"schedules_replayed_with_threads_frozen_inside_autograd_code": len(ms),
                                           "freezes_inside_a_machine_step": sum(m["frozen_mid_step"] for m in ms),
                                           "steps_that_completed_before_their_freeze_point": sum(m["ran_out_of_turn"] for m in ms)}
        # (only meaningful when every thread ran to completion: a thread that died early takes fewer steps than scheduled)
        mism = [t["id"] for t in traces if t.get("sched_mismatch") and all(o.get("k") == "val" for o in t["obs"])]
        if mism:
            raise vlib.MachineryError("baton scheduler: executed step order differs from the exported schedule in macro mode (cases %s)" % mism[:5])
    if lemma:
        coverage["level_lemma_tlaps"] = lemma
    if not write:
        return verdict, coverage
    rc = verdict.finish()
    vlib.write_evidence(pid, tier, seed, "model_checking", coverage, assumptions, time.time() - t0, len(verdict.violations))
    return rc


ASSUME = [
    "TLC 1.8 evaluates AGM/AGMDen/Poly correctly; the polynomial oracle (symbolic differentiation of integer polynomials) is the meaning of a program",
    "programs use scalar integer-valued floats and the primitives add/mul/neg (+ a notrace primitive, a primitive with raising rules); "
    "numeric primitives are covered by the rule-table checks, not here",
    "nesting depth <= 3 (higher order <= 4), bounded program families enumerated in spec/engine/AGMProgs.tla",
]
MUT_GEQ = dict(TopCmp=">=")
MUT_DEP = dict(DepTest="isbox")
MUT_RESET = dict(ExcPolicy="reset")
MUT_TOP = dict(DepTest="top")


def c08(tier, seed, replay=None):
    if replay:
        return _replay("C08", replay)
    q = tier == "quick"
    # (threads2small: a nested differentiation in one thread while another thread enters and leaves traces - level allocation must not
    #  be confused by foreign traces either; the full thread exploration is C20's)
    fams = [("nest", 2, None), ("nestq", 3, 1000) if q else ("nest", 3, None), ("fault", 2, None), ("ho", 3 if q else 4, None),
            ("threads2small", 2, 250 if q else 2000), ("mix", 2, None)]
    muts = [("nest", 2, MUT_GEQ), ("nest", 2, MUT_DEP), ("fault", 2, MUT_RESET)]
    t0 = time.time()
    v1, cov = run_agm("C08", tier, seed, fams, muts,
                   "nest family: every nesting of depth 2 (and 3) x every mode assignment x every closure pattern (which enclosing variables the "
                   "level's body mentions, own variable to the power 0..2, inner point own / own+enclosing, inner result added or multiplied in); "
                   "fault family: nested differentiation after a caught inner failure; distinct_nontrivial = distinct programs with a defined meaning",
                   ASSUME, level_lemma=True, random_n=400 if q else 5000, write=False)
    # one nesting level through the built-in rules, at a cotangent / tangent that is a traced ZERO of the enclosing differentiation
    from checks import rules
    v2, cov2 = rules.c08_rules(tier, seed)
    rules.merge(v1, cov, v2, cov2, "nested_through_rules_at_zero_cotangent")
    # a primitive whose own rule differentiates a closure (autograd.misc.fixed_point): nested to depth 3, inner derivative closing over the outer variable
    from checks import algebra
    mp = algebra.misc_part(v1, "fp")
    cov["fixed_point_primitive_nested"] = mp
    cov["states"] += mp["states"]
    cov["transitions"] += mp["transitions"]
    cov["traces_validated_against_impl"] += mp["cases"]
    cov["evaluations"] += mp["cases"]
    rc = v1.finish()
    vlib.write_evidence("C08", tier, seed, "model_checking", cov, ASSUME + rules.ASSUME, time.time() - t0, len(v1.violations))
    return rc


def c07(tier, seed, replay=None):
    if replay:
        return _replay("C07", replay)
    q = tier == "quick"
    # mix: sparse (indexing) and dense cotangents meeting at one value, differentiated 1..3 times in every mode sequence
    # fault: higher-order / nested derivatives computed by a function that first recovers from a failed inner differentiation
    # threads2small: a nested (second-order) differentiation in one thread while another thread enters and leaves traces
    fams = [("ho", 4, None), ("mix", 3, None), ("nest", 2, None), ("nestq", 3, 800) if q else ("nest", 3, None), ("fault", 2, None),
            ("threads2small", 2, 250 if q else 2000), ("ckpt", 2, None)]      # ckpt: first and second derivatives through autograd.checkpoint
    muts = [("ho", 3, MUT_GEQ)]
    t0 = time.time()
    v1, cov = run_agm("C07", tier, seed, fams, muts,
                      "ho family: d^k/dx^k of x^e for k = 2..4, e = 2..5, all 2^k forward/reverse mode sequences, two points; nest family: inner "
                      "derivatives consumed and differentiated again by outer levels; every program has one meaning independent of the mode sequence",
                      ASSUME, write=False)
    # per primitive configuration: rr / fr / rf / ff Hessian-vector products agree, are symmetric and equal d(grad)/dx (Contract!SecondOrder)
    from checks import rules
    v2, cov2 = rules.c07_second(tier, seed)
    cov["states"] += cov2["states"]
    cov["transitions"] += cov2["transitions"]
    cov["traces_validated_against_impl"] += cov2["traces_validated_against_impl"]
    cov["evaluations"] += cov2["evaluations"]
    cov["distinct_nontrivial"] += cov2["distinct_nontrivial"]
    cov["per_primitive_second_order"] = {k: cov2[k] for k in ("families", "not_evaluated", "observations_rejected_by_contract", "primitives_covered")}
    v1.violations += v2.violations
    for k, n in v2.known_hits.items():
        v1.known_hits[k] = v1.known_hits.get(k, 0) + n
    cov["known_findings_reobserved"] = v1.known_hits
    from checks import algebra
    mp = algebra.misc_part(v1, "fp")
    cov["fixed_point_primitive_orders_1_to_3"] = mp
    cov["traces_validated_against_impl"] += mp["cases"]
    cov["evaluations"] += mp["cases"]
    rc = v1.finish()
    vlib.write_evidence("C07", tier, seed, "model_checking", cov, ASSUME + rules.ASSUME, time.time() - t0, len(v1.violations))
    return rc


def c14(tier, seed, replay=None):
    if replay:
        return _replay("C14", replay)
    q = tier == "quick"
    # (fault family: the independence test must also survive differentiations that failed earlier in the same enclosing function)
    fams = [("nd", 2, None), ("nest", 2, None), ("nestq", 3, 600) if q else ("nest", 3, 6000), ("fault", 2, None)]
    muts = [("nest", 2, MUT_DEP)]
    t0 = time.time()
    v1, cov = run_agm("C14", tier, seed, fams, muts,
                      "nd family: dependence only through a non-differentiable (notrace) primitive, x*nd(x) -> nd(x); nest family contains every "
                      "level body that does not mention its own variable (independent output at any depth, in both modes)",
                      ASSUME, write=False)
    from checks import algebra
    nd = algebra.c14_nondiff(v1)
    cov["states"] += nd["states"]
    cov["transitions"] += nd["transitions"]
    cov["traces_validated_against_impl"] += nd["rows"]
    cov["evaluations"] += nd["rows"]
    cov["nondifferentiable_function_set"] = nd
    from checks import rules
    v3, cov3 = rules.c14_rules(tier, seed)
    rules.merge(v1, cov, v3, cov3, "declared_zero_on_array_arguments")
    rc = v1.finish()
    vlib.write_evidence("C14", tier, seed, "model_checking", cov, ASSUME + ["the non-differentiable set is autograd's own nograd_functions list plus the "
                        "shape/type queries; each is called with up to two templates NumPy accepts"], time.time() - t0, len(v1.violations))
    return rc


def c19(tier, seed, replay=None):
    if replay:
        return _replay("C19", replay)
    fams = [("fault", 2, None), ("nest", 2, None)]
    muts = [("fault", 2, MUT_RESET), ("fault", 2, MUT_TOP)]
    t0 = time.time()
    v1, cov = run_agm("C19", tier, seed, fams, muts,
                   "fault family: fault kind (exception at instruction 0/1/2 of the innermost function, a derivative rule raising in the backward "
                   "pass / tangent propagation, the independence warning promoted to an error at trace exit) x where it is caught (inside the "
                   "differentiated function, two levels above, at top level, twice in a row) x 2^3 modes x 2 points, followed by nested canary "
                   "differentiations in the same process; all programs of one worker process run in sequence, so every program also runs after the "
                   "failures of its predecessors",
                   ASSUME, level_lemma=True, write=False, random_n=300 if tier == "quick" else 3000)
    # the same property one level down: a VJP function whose call was abandoned by a raising rule is called again (RevAbs sessions)
    from checks import rev
    v2, cov2 = rev.c19_sessions(tier, seed)
    for k in ("states", "transitions", "traces_validated_against_impl", "evaluations", "distinct_nontrivial"):
        cov[k] += cov2[k]
    cov["vjp_sessions_with_abandoned_calls"] = {k: cov2[k] for k in ("traces_validated_against_impl", "rule_application_events_validated", "graphs_exported_by_tlc", "rule")}
    v1.violations += v2.violations
    # ... and on the rule tables: nothing a rule computes may be remembered across calls (TraceHistory.tla)
    from checks import rules
    hist = rules.c19_history(v1, tier, seed)
    cov["states"] += hist["states"]
    cov["transitions"] += hist["transitions"]
    cov["traces_validated_against_impl"] += hist["configurations_run_in_both_orders"]
    cov["evaluations"] += 2 * hist["configurations_run_in_both_orders"]
    cov["rule_tables_in_two_orders"] = hist
    rc = v1.finish()
    vlib.write_evidence("C19", tier, seed, "model_checking", cov, ASSUME, time.time() - t0, len(v1.violations))
    return rc


def c17(tier, seed, replay=None):
    if replay:
        return _replay("C17", replay)
    q = tier == "quick"
    # fault: "a missing rule raises" - and the program that catches that exception and goes on differentiating gets exact derivatives
    fams = [("ext1", 3 if q else 4, 1500 if q else None), ("ext2", 2 if q else 3, 1200 if q else 8000), ("ckpt", 2, None), ("fault", 2, None)]
    t0 = time.time()
    v1, cov = run_agm("C17", tier, seed, fams, [],
                   "ext1: product primitive of arity 1..3 (thorough 4) x every non-empty subset of differentiated positions x every rule table over "
                   "{rule, None, missing} x keyword argument x both modes; ext2: arguments assigned to trace levels {inner variable, enclosing "
                   "variable, constant} under a depth-2 nesting whose outer level differentiates the inner derivative (rules are traced); each "
                   "program is replayed with the primitive registered through defvjp / defvjp(argnums=) / defvjp_argnum / defvjp_argnums and "
                   "defjvp / defjvp_argnum / def_linear / 'same' (rotating with the case index); ckpt: checkpoint(body)(args) must equal the plain "
                   "call in value and in derivatives of order 1 and 2, incl. nested checkpoints and a traced closure",
                   ASSUME + ["the user rule computes g * scale * prod(other args) + (ans - scale*prod(args)) * g, so a wrong ans or wrong argument "
                             "values handed to the rule change the result"], replicas=3 if q else 6, write=False)
    # the same contract on ARRAY arguments of different shapes (rule-table machinery, RuleSpace!ExtendFamily, judged by Contract!C17)
    from checks import rules
    v2, cov2 = rules.c17_rules(tier, seed)
    rules.merge(v1, cov, v2, cov2, "array_arguments_of_different_shapes")
    rc = v1.finish()
    vlib.write_evidence("C17", tier, seed, "model_checking", cov, ASSUME + rules.ASSUME, time.time() - t0, len(v1.violations))
    return rc


def c20(tier, seed, replay=None):
    if replay:
        return _replay("C20", replay)
    q = tier == "quick"
    t0 = time.time()
    # exhaustive interleaving check (states merged by VIEW): per-thread counters hold, the global counter must fail
    extra = []
    for fam in (["threads2"] if q else ["threads2", "threads3"]):
        c = dict(BASE)
        c.update(Family=fam)
        cfg = (CFG % c).replace("SPECIFICATION Spec", "SPECIFICATION Spec\nVIEW NoSched")
        r = vlib.tlc_must_pass(vlib.run_tlc("MCAGM", cfg=cfg, workers=16, timeout=3000, tag="MCAGM-view"), "thread model " + fam)
        extra.append({"family": fam, "all_interleavings_distinct_states": r.distinct, "generated": r.generated})
    c = dict(BASE)
    c.update(Family="threads2", CounterScope="global")
    cfg = "\n".join(l for l in (CFG % c).splitlines() if not l.startswith("INVARIANT") or "ResultIsDen" in l) + "\nVIEW NoSched\n"
    r = vlib.run_tlc("MCAGM", cfg=cfg, workers=16, timeout=3000, tag="MCAGM-global")
    if r.ok:
        raise vlib.MachineryError("the global-counter variant (pinned defect) was not rejected by the thread model")
    extra.append({"model_mutant": "CounterScope=global", "rejected_by": r.violated or "evaluation error"})
    fams = [("threads2small", 2, 1000 if q else None)] + ([] if q else [("threads2med", 2, 8000)])
    rc = run_agm("C20", tier, seed, fams, [],
                 "two (thorough: three) threads, at least one of them nested; every interleaving of their machine steps is model-checked "
                 "(states merged by a VIEW); for the small pairs every distinct schedule is exported by TLC and replayed with real threads "
                 "under a strict baton scheduler that switches threads exactly at the machine-step boundaries; each thread's result must "
                 "equal its run-alone meaning", ASSUME + [
                     "real threads are serialised by the baton scheduler (exactly one runs at a time); every schedule is replayed twice: switching at the "
                     "machine-step boundaries, and with the switching thread frozen a pseudo-random number of line events *inside* its next step "
                     "(inside tracer.trace / primitive.f_wrapped / backward_pass / a rule) while the others take their steps; truly simultaneous "
                     "execution of two bytecodes is not explored",
                     "thread-interleaving model: %s" % json.dumps(extra)], replicas=2 if q else 6, micro=os.environ.get("VERIF_NO_MICRO") != "1")
    return rc


def agm_part(pid, tier, seed, fams):
    """engine part used by other checks (C03 control flow, C06 NoLeak): returns (violations list, coverage dict)"""
    raise NotImplementedError


def _replay(pid, path):
    d = json.load(open(path))
    c = d["case"]
    work = [{"id": 1, "prog": c["prog"], "variant": c.get("variant", 0)}]
    traces, files = vlib.parallel_replay("agm_replay.py", work, nproc=1, tag="agm1")
    accepted, _, _, _, _ = vlib.parallel_validate("TraceAGM", files, cfg=TRACE_CFG, njvm=1)
    print(json.dumps(traces[0]["obs"]), "expected meaning", d["detail"].get("meaning"))
    if 1 in accepted:
        print("replay: observation accepted")
        return vlib.EXIT_OK
    print("VIOLATION property=%s replay=%s" % (pid, path))
    return vlib.EXIT_VIOLATION
