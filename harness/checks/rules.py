"""C01 C02 C04 C05 C06 C09 (+ index part of C11): the rule tables, configuration by configuration.

 1. TLC enumerates the configuration space of each family (spec/rules/RuleSpace.tla, validity via Shape.tla).
 2. A stratified sample (quick) or the whole space (thorough) is replayed on /repo (harness/rule_replay.py).
 3. TLC judges every observation against the property's contract (spec/rules/Contract.tla via TraceContract.tla).
 4. Rejected observations are violations unless matched by a known-findings predicate; a Python mirror of the contract
    must agree with TLC on every observation (else exit 2).
"""
import json
import os
import random
import time

import vlib

GEN_CFG = 'CONSTANTS Family = "%s" MaxRank = %d Kinds = {%s}\nSPECIFICATION Spec\n'
JUDGE_CFG = "SPECIFICATION Spec\n"


def enumerate_family(fam, maxrank, kinds):
    r = vlib.tlc_must_pass(vlib.run_tlc("RuleSpace", cfg=GEN_CFG % (fam, maxrank, ", ".join('"%s"' % k for k in kinds)), workers=1,
                                        timeout=3000, tag="RuleSpace-" + fam), "RuleSpace " + fam)
    cfgs = [p for p in r.printed if isinstance(p, dict)]
    for c in cfgs:
        c["fam"] = fam
    return cfgs, r


def facets(c):
    """canonical facets used by coverage tables and known-finding predicates"""
    f = {"fam": c["fam"], "prim": c["prim"], "form": c["form"], "argnum": c["argnum"], "kind": c["kind"], "nd": len(c["s"]),
         "nd2": len(c["s2"]), "ia": c["ia"], "ib": c["ib"], "st": c["st"], "kd": c["kd"], "scal": c["scal"],
         "axis_kind": c["ax"]["k"], "tp_len": len(c["tp"])}
    ax = c["ax"]
    if ax["k"] == "int":
        f["axis_sign"] = "neg" if ax["a"] < 0 else "pos"
    elif ax["k"] == "tuple":
        neg = [a < 0 for a in ax["t"]]
        f["axis_sign"] = "neg" if all(neg) else ("pos" if not any(neg) else "mixed")
    else:
        f["axis_sign"] = "none"
    f["axis_order"] = ("asc" if list(ax["t"]) == sorted(ax["t"]) else "desc") if ax["k"] == "tuple" and len(ax["t"]) > 1 else "na"
    f["same_shape"] = c["s"] == c["s2"]
    f["s"] = list(c["s"])
    f["maxnd"] = max(len(c["s"]), len(c["s2"]))
    f["rank_excess"] = len(c["s"]) - len(c["tp"])
    f["mode_or_nd"] = len(c["s"])
    f["square"] = len(c["s"]) == 2 and c["s"][0] == c["s"][1]
    return f


def stratified(cfgs, n, rng):
    """sample n configurations so that every (prim, form, argnum, kind, axis kind/sign, rank) stratum is hit first"""
    if n is None or len(cfgs) <= n:
        return list(cfgs)
    strata = {}
    for c in cfgs:
        f = facets(c)
        key = (f["prim"], f["form"], f["argnum"], f["kind"], f["axis_kind"], f["axis_sign"], f["axis_order"], f["nd"], f["nd2"], f["kd"], f["ia"], f["st"], f["square"],
               tuple(sorted(str(i.get("t")) for i in c["tp"])) if c["tp"] and isinstance(c["tp"][0], dict) else f["tp_len"])
        strata.setdefault(key, []).append(c)
    keys = sorted(strata, key=str)
    rng.shuffle(keys)
    out = []
    for k in keys:
        rng.shuffle(strata[k])
    rnd = 0
    while len(out) < n:
        added = False
        for k in keys:
            if rnd < len(strata[k]):
                out.append(strata[k][rnd])
                added = True
                if len(out) >= n:
                    break
        rnd += 1
        if not added:
            break
    return out


def flatten(o):
    """observation -> flat judge record (ints, strings, booleans, sequences only)"""
    def st(s):
        if not s or "shape" not in s:
            return [-2], "-", "-"
        return s["shape"], s["kind"], s["dtype"]
    v, j = o["vjp"], o["jvp"]
    vs, vk, vd = st(v["struct"])
    js, jk, jd = st(j["struct"])
    ins, ink, ind = st(o["in"])
    os_, ok, od = st(o["out"])
    c = o["cfg"]
    return {"id": o["id"], "prim": c["prim"], "fam": c["fam"], "kind": c["kind"],
            "vjp_raised": v["raised"] is not None, "vjp_nbad": v["nbad"], "vjp_shape": vs, "vjp_kind": vk, "vjp_dtype": vd,
            "jvp_raised": j["raised"] is not None, "jvp_nbad": j["nbad"], "jvp_shape": js, "jvp_kind": jk, "jvp_dtype": jd,
            "in_shape": ins, "in_kind": ink, "in_dtype": ind, "out_shape": os_, "out_kind": ok, "out_dtype": od,
            "oshape_spec": c["oshape"], "adj_checked": o["adj"]["checked"], "adj_nbad": o["adj"]["nbad"],
            "lin_vjp": o["adj"]["lin_vjp"], "lin_jvp": o["adj"]["lin_jvp"],
            "lin0_vjp": o["adj"].get("lin0_vjp", 0), "lin0_jvp": o["adj"].get("lin0_jvp", 0), "vjp_late": bool(v.get("late")),
            "vjp_primal_eq": v["primal_eq"], "jvp_primal_eq": j["primal_eq"], "box": o["primal"]["box"],
            "intact": o["primal"]["intact"], "nest_eq": o["primal"]["nest_eq"], "raw_eq": o["primal"].get("raw_eq", True), "ops_bad": o.get("ops_bad", 0), "sum_pair_bad": o["adj"].get("sum_pair_bad", 0),
            "second_checked": bool(o.get("second", {}).get("checked")), "second_nbad": o.get("second", {}).get("nbad", 0),
            "second_sym_bad": o.get("second", {}).get("sym_bad", 0), "second_num_bad": o.get("second", {}).get("num_bad", 0),
            "second_box": any(v_ == "box" for v_ in o.get("second", {}).get("modes", {}).values())}


def mirror(prop, r):
    """Python mirror of Contract!Holds; returns list of failing clause names (empty = holds)"""
    dp = lambda d: d in ("float64", "complex128")
    rev = r["vjp_raised"] or (r["vjp_nbad"] == 0 and not r["vjp_late"])
    fwd = r["jvp_raised"] or (r["jvp_nbad"] == 0 and r["jvp_shape"] == r["out_shape"] and r["jvp_kind"] == r["out_kind"])
    fails = []
    if prop in ("C01", "C14", "C17") and not rev:
        fails.append("the VJP function stopped working / changed its answer when applied again (RevExact: for all cotangents)" if r["vjp_late"] and not r["vjp_raised"]
                     else "reverse-mode matrix differs from J^T (RevExact)")
    if prop in ("C02", "C14", "C17") and not fwd:
        fails.append("forward-mode matrix differs from J or tangent has the wrong structure (FwdExact)")
    if prop in ("C09", "C11", "C03"):
        if not rev:
            fails.append("reverse mode differs from conj(J_R^T conj g) (RevExact)")
        if not fwd:
            fails.append("forward mode differs from J_R v or has the wrong structure (FwdExact)")
    if prop == "C09" and r["ops_bad"]:
        fails.append("jacobian() / grad() of this configuration differ from the rows of its VJP (complex input not kept complex?)")
    if prop == "C11" and (r["vjp_raised"] or r["jvp_raised"]):
        fails.append("differentiating through an index expression NumPy accepts raised")
    if prop == "C12":
        if r["vjp_raised"]:
            fails.append("differentiating through an access to a tuple-valued result raised")
        elif not rev:
            fails.append("reverse mode differs from J^T g (RevExact)")
    if prop == "C04" and not r["vjp_raised"] and not r["jvp_raised"] and r["sum_pair_bad"]:
        fails.append("<1, JVP v> != <VJP 1, v> for G = sum o f (Adjoint, through a linear functional)")
    if prop == "C04" and not r["vjp_raised"] and not r["jvp_raised"] and r["vjp_shape"] == r["in_shape"] and r["jvp_shape"] == r["out_shape"]:
        if not (r["adj_checked"] and r["adj_nbad"] == 0):
            fails.append("<g, JVP v> != <VJP g, v> on the basis (Adjoint)")
        if r["lin_vjp"] or r["lin_jvp"]:
            fails.append("VJP or JVP not linear (Adjoint)")
        if r["lin0_vjp"] or r["lin0_jvp"]:
            fails.append("VJP or JVP not linear as a traced function at the origin: d/dg vjp(g) at g=0 differs from vjp (Adjoint)")
    if prop in ("C14", "C17") and r["fam"] == "extend" and (r["vjp_raised"] or r["jvp_raised"]):
        fails.append("a derivative with a registered rule (or a registered None) raised")
    if prop == "C10" and not r["vjp_raised"]:
        if r["vjp_late"]:
            fails.append("the VJP function is not reusable: a later call raised or re-applying a cotangent gave a different result")
        if not r["intact"]:
            fails.append("a user-supplied input was modified")
    if prop in ("C05", "C14", "C17"):
        if not r["vjp_raised"] and not (r["vjp_shape"] == r["in_shape"] and r["vjp_kind"] == r["in_kind"]
                                        and (not dp(r["in_dtype"]) or r["vjp_dtype"] == r["in_dtype"])):
            fails.append("VJP result has structure %s/%s/%s, argument has %s/%s/%s" %
                         (r["vjp_shape"], r["vjp_kind"], r["vjp_dtype"], r["in_shape"], r["in_kind"], r["in_dtype"]))
        if not r["jvp_raised"] and not (r["jvp_shape"] == r["out_shape"] and r["jvp_kind"] == r["out_kind"]):
            fails.append("JVP result has structure %s/%s, output has %s/%s" % (r["jvp_shape"], r["jvp_kind"], r["out_shape"], r["out_kind"]))
    if prop == "C08" and (r["lin0_vjp"] or r["lin0_jvp"]):
        fails.append("nested differentiation through the rule at a zero cotangent/tangent: d/dg vjp(g) at g=0 differs from the rule's linear map")
    if prop == "C07" and (r["lin0_vjp"] or r["lin0_jvp"]):
        fails.append("derivative of the VJP/JVP with respect to its cotangent/tangent at the origin differs from the VJP/JVP itself")
    if prop == "C07" and r["second_checked"]:
        if r["second_nbad"]:
            fails.append("Hessian-vector products of different mode sequences disagree")
        if r["second_sym_bad"]:
            fails.append("Hessian not symmetric")
        if r["second_num_bad"]:
            fails.append("second derivative differs from the derivative of the first-order gradient")
        if r["second_box"]:
            fails.append("a tracer object was handed back by a second-order computation")
    if prop == "C06":
        if not r["vjp_raised"] and not r["vjp_primal_eq"]:
            fails.append("primal under reverse mode differs from plain NumPy")
        if not r["jvp_raised"] and not r["jvp_primal_eq"]:
            fails.append("primal under forward mode differs from plain NumPy")
        if r["box"]:
            fails.append("a tracer object was handed back to the caller")
        if not r["intact"]:
            fails.append("a user-supplied input was modified")
        if not r["nest_eq"]:
            fails.append("primal under nested differentiation differs from plain NumPy")
        if not r["raw_eq"]:
            fails.append("the value autograd.numpy returns for plain arguments differs from the value numpy itself returns for the same call")
    return fails


FAMILIES = {
    # family: (MaxRank quick, MaxRank thorough, kinds)
    "single": (2, 2, ["rr"]), "empty": (2, 2, ["rr"]), "mixorder": (2, 2, ["rr"]), "realinto": (2, 2, ["rc"]), "special": (2, 2, ["rr"]), "extend": (2, 2, ["rr"]), "helper": (3, 3, ["rr"]), "argsweep": (2, 2, ["rr"]), "index": (2, 3, ["rr"]), "kink": (2, 2, ["rr"]), "linalg": (3, 3, ["rr"]), "fft": (3, 3, ["rr"]), "join": (3, 3, ["rr"]), "contract": (3, 3, ["rr"]), "rearr": (3, 3, ["rr"]), "binary": (3, 4, ["rr"]), "where": (2, 2, ["rr"]), "reduce": (3, 4, ["rr"]), "cum": (3, 3, ["rr"]), "unary": (2, 2, ["rr"]), "scipy": (2, 3, ["rr"]),
}
COMPLEX_FAMILIES = {"single": (2, 2, ["cc", "cr", "rc"]), "realinto": (2, 2, ["rc"]), "linalg": (2, 3, ["cc"]), "fft": (3, 3, ["rr", "cc"]), "contract": (2, 3, ["cc", "cr", "rc"]), "binary": (2, 3, ["cc", "cr", "rc"]), "reduce": (2, 3, ["cc"]), "unary": (2, 2, ["cc"])}


def run_rules(pid, tier, seed, fams, per_family_quick, level_rule, assumptions, extra_cases=None, write=True):
    t0 = time.time()
    quick = tier == "quick"
    verdict = vlib.Verdict(pid)
    rng = random.Random(seed)
    states = trans = 0
    notes = []
    cfgs = []
    for fam, (rq, rt, kinds) in fams.items():
        allc, r = enumerate_family(fam, rq if quick else rt, kinds)
        states += r.distinct
        trans += r.generated
        if pid == "C09":      # the complex convention: only configurations with a complex operand or a complex result
            allc = [c for c in allc if c["kind"] != "rr" or fam == "fft"]
        pfq = per_family_quick.get(fam, per_family_quick.get("*")) if isinstance(per_family_quick, dict) else per_family_quick
        chosen = stratified(allc, pfq if quick else None, rng)
        if quick:
            chosen = [dict(c, dk=seed % 7) for c in chosen]
        else:      # thorough: every configuration at two different generic points
            chosen = [dict(c, dk=dk) for c in chosen for dk in (seed % 7, 3 + seed % 5)]
        notes.append({"family": fam, "kinds": kinds, "configurations_enumerated_by_tlc": len(allc), "replayed": len(chosen)})
        cfgs += chosen
    for i, c in enumerate(cfgs):
        c["id"] = i + 1
        if pid == "C07":
            c["second"] = True
    sci_cfgs = [c for c in cfgs if c["fam"] == "scipy"]
    obs, files = vlib.parallel_replay("rule_replay.py", [c for c in cfgs if c["fam"] != "scipy"], nproc=15, tag="rules")
    if sci_cfgs:
        # the SciPy wrappers run under the tooling interpreter (the repository's own has no SciPy); autograd is still /repo's working tree
        obs2, files2 = vlib.parallel_replay("rule_replay.py", sci_cfgs, nproc=15, tag="rules-scipy", py=vlib.PY_SCIPY)
        obs, files = obs + obs2, files + files2
    harness_errors = [o for o in obs if o["status"].startswith("harness_error")]
    if harness_errors:
        raise vlib.MachineryError("harness error in %d observations, first: %s" % (len(harness_errors), harness_errors[0]["status"]))
    ok = [o for o in obs if o["status"] == "ok"]
    skipped = {}
    for o in obs:
        if o["status"] != "ok":
            k = o["status"].split(":")[0] + ":" + o["status"].split(":")[1][:30]
            skipped[k] = skipped.get(k, 0) + 1
    flat = [flatten(o) for o in ok]
    d = vlib.subdir("judge-%s" % pid)
    parts = vlib.chunks(flat, 8) if flat else []
    jfiles = [vlib.write_ndjson(os.path.join(d, "obs%d.ndjson" % k), p) for k, p in enumerate(parts)]
    accepted, g2, d2, _w, _inv = vlib.parallel_validate("TraceContract", jfiles, cfg=JUDGE_CFG, njvm=8, env={"PROP": pid})
    states += d2
    trans += g2
    by_id = {o["id"]: o for o in ok}
    flat_by_id = {r["id"]: r for r in flat}
    nviol = 0
    for r in flat:
        fails = mirror(pid, r)
        if not vlib.reconcile("observation %d %s" % (r["id"], fails), r["id"] in accepted, not fails) and not fails:
            fails = [vlib.UNNAMED]
        if r["oshape_spec"] != [-1] and r["oshape_spec"] != r["out_shape"]:
            raise vlib.MachineryError("Shape.tla predicts output shape %s, NumPy gives %s for %s" % (r["oshape_spec"], r["out_shape"], by_id[r["id"]]["cfg"]))
        if fails:
            o = by_id[r["id"]]
            fc = facets(o["cfg"])
            fc["fails"] = fails
            new = verdict.violation(fc, {"reason": fails, "cfg": o["cfg"], "second": o.get("second"), "vjp": o["vjp"], "jvp": o["jvp"], "adj": o["adj"],
                                         "primal": o["primal"], "in": o["in"], "out": o["out"]})
            nviol += 1
    if verdict.violations or verdict.known_hits:
        grp = {}
        for fc, det in verdict.violations:
            k = (fc["prim"], fc["form"], fc["kind"], tuple(fc["fails"])[0][:60])
            grp.setdefault(k, []).append(det["cfg"])
        for k in sorted(grp, key=str):
            ex = grp[k][0]
            print("  group %s: %d cases, e.g. s=%s s2=%s s3=%s argnum=%s ax=%s kd=%s ia=%s ib=%s tp=%s st=%s scal=%s" %
                  (k, len(grp[k]), ex["s"], ex["s2"], ex["s3"], ex["argnum"], ex["ax"], ex["kd"], ex["ia"], ex["ib"], ex["tp"], ex["st"], ex["scal"]))
    raised = {"vjp": sum(1 for r in flat if r["vjp_raised"]), "jvp": sum(1 for r in flat if r["jvp_raised"])}
    prim_cov = {}
    prim_raise = {}
    for o in ok:
        pn = o["cfg"]["prim"]
        prim_cov[pn] = prim_cov.get(pn, 0) + 1
        pr_ = prim_raise.setdefault(pn, {"n": 0, "vjp_raised": 0, "jvp_raised": 0, "exc": {}})
        pr_["n"] += 1
        for md in ("vjp", "jvp"):
            if o[md]["raised"]:
                pr_[md + "_raised"] += 1
                pr_["exc"][md + ":" + o[md]["raised"]] = pr_["exc"].get(md + ":" + o[md]["raised"], 0) + 1
    always = {k: v["exc"] for k, v in prim_raise.items() if v["n"] >= 3 and v["vjp_raised"] == v["n"]}
    distinct = len({json.dumps({k: v for k, v in o["cfg"].items() if k != "id"}, sort_keys=True) for o in ok
                    if not (o["vjp"]["raised"] and o["jvp"]["raised"])})
    s = [ok[0], ok[len(ok) // 2], ok[-1]] if ok else []
    coverage = {
        "states": states, "transitions": trans, "traces_validated_against_impl": len(ok),
        "evaluations": len(obs), "distinct_nontrivial": distinct,
        "rule": level_rule, "families": notes, "not_evaluated": skipped, "calls_that_raised": raised,
        "exact_tier": sum(1 for o in ok if o.get("exact")), "projection_tier": sum(1 for o in ok if not o.get("exact")),
        "primitives_covered": len(prim_cov), "per_primitive": prim_cov,
        "primitives_whose_every_reverse_call_raised": always,
        "values_compared_with_numpy_itself": sum(1 for o in ok if o.get("primal", {}).get("raw_checked")),
        "second_order_not_evaluated_harness": sum(1 for o in ok if o.get("second", {}).get("harness")),
        "observations_rejected_by_contract": nviol, "known_findings_reobserved": verdict.known_hits,
        "exhaustive": not quick,
        "samples": [{"cfg": o["cfg"], "in": o["in"], "out": o["out"], "vjp": {k: o["vjp"][k] for k in ("raised", "nbad", "struct")},
                     "jvp": {k: o["jvp"][k] for k in ("raised", "nbad", "struct")}} for o in s],
    }
    if not write:
        return verdict, coverage
    rc = verdict.finish()
    vlib.write_evidence(pid, tier, seed, "model_checking", coverage, assumptions, time.time() - t0, len(verdict.violations))
    return rc


ASSUME = [
    "plain NumPy (the function itself, through the no-box branch of the primitive wrapper) is the oracle for primal values; its Jacobian is obtained "
    "by exact differences for affine maps and by a 4th-order central stencil (two step sizes must agree to 1e-8) otherwise",
    "agreement is decided on integers D = round(diff / max(1,|W|) * 2^20): numeric accuracy beyond ~5e-7 relative is not claimed (C04: 1e-11, oracle-free)",
    "ranks <= 3 (thorough: 4), dimensions in {1,2,3}; float64 / complex128 data at generic points; the SciPy wrappers (special, stats, linalg, signal; not integrate.odeint) run under the tooling interpreter (numpy 2.4, scipy 1.17) because the repository's own interpreter has no SciPy",
]
RULE = ("one case = one call configuration enumerated by TLC from RuleSpace.tla (primitive x call form x shapes/broadcast pattern x axis x keepdims x "
        "ddof x argnum x scalar form x real/complex kind); quick = stratified sample hitting every stratum (prim, form, argnum, kind, axis kind/sign, "
        "ranks, keepdims, ddof), thorough = the whole enumerated space; distinct_nontrivial = distinct configurations in which at least one mode "
        "returned a derivative")


def _quick_n(pid):
    return 350


def helper_lemmas(verdict, tier):
    """Helpers.tla: the adjointness lemmas of unbroadcast / broadcast / repeat_to_match_shape model-checked for every shape of rank <= 3,
    and the real helper functions replayed on the same tensors and judged by TLC.  Returns a coverage dict."""
    maxr = 2 if tier == "quick" else 3
    cfg = "CONSTANTS MaxR = %d Export = %s\nSPECIFICATION Spec\nINVARIANT Lemmas\n"
    r = vlib.tlc_must_pass(vlib.run_tlc("MCHelpers", cfg=cfg % (3, "FALSE"), workers=16, timeout=3000), "helper lemmas")
    e = vlib.tlc_must_pass(vlib.run_tlc("MCHelpers", cfg=cfg % (maxr, "TRUE"), workers=1, timeout=3000, tag="MCHelpers-export"), "helper export")
    cases = [p for p in e.printed if isinstance(p, dict) and "kind" in p]
    for i, c in enumerate(cases):
        c["id"] = i + 1
    obs, files = vlib.parallel_replay("helpers_replay.py", cases, nproc=8, tag="helpers")
    accepted, g2, d2, _w, _inv = vlib.parallel_validate("TraceHelpers", files, cfg="SPECIFICATION Spec\n", njvm=8)
    for o in obs:
        wshape = o["r"] if o["kind"] == "broadcast" else o["t"]
        good = (not o["err"]) and o["got"] == o["want"] and list(o["gotshape"]) == list(wshape)
        if good != (o["id"] in accepted) and not (o["kind"] == "repeat" and good):
            vlib.reconcile("helper observation %s" % o, o["id"] in accepted, good)
        if o["id"] not in accepted:
            verdict.violation({"prim": o["kind"], "fam": "helper-function", "t": o["t"], "r": o["r"]},
                              {"reason": "shared helper %s returned %s (shape %s), the adjoint/forward map gives %s" % (o["kind"], o["got"][:12], o["gotshape"], o["want"][:12]),
                               "case": {k: o[k] for k in ("kind", "t", "r", "ax", "keep")}, "err": o["err"]})
    return {"lemma_cases_model_checked": r.distinct // 2, "states": r.distinct + e.distinct + d2, "transitions": r.generated + e.generated + g2,
            "helper_calls_replayed": len(obs), "accepted": len(accepted)}


def _with_helpers(pid, tier, seed, per_family):
    t0 = time.time()
    v, cov = run_rules(pid, tier, seed, FAMILIES, per_family, RULE, ASSUME, write=False)
    h = helper_lemmas(v, tier)
    cov["states"] += h["states"]
    cov["transitions"] += h["transitions"]
    cov["traces_validated_against_impl"] += h["helper_calls_replayed"]
    cov["shared_helper_lemmas"] = h
    rc = v.finish()
    vlib.write_evidence(pid, tier, seed, "model_checking", cov, ASSUME, time.time() - t0, len(v.violations))
    return rc


def c01(tier, seed, replay=None):
    return _with_helpers("C01", tier, seed, 2500)


def c02(tier, seed, replay=None):
    return run_rules("C02", tier, seed, FAMILIES, 1200, RULE, ASSUME)


def c04(tier, seed, replay=None):
    return run_rules("C04", tier, seed, FAMILIES, 1000, RULE, ASSUME)


def c05(tier, seed, replay=None):
    return _with_helpers("C05", tier, seed, 1500)


def c06(tier, seed, replay=None):
    t0 = time.time()
    v1, cov = run_rules("C06", tier, seed, FAMILIES, 800, RULE, ASSUME, write=False)
    # engine half of the property (AGM invariant NoLeak; primal of a nested / failing / retried differentiation is the plain value):
    # programs of the fault and nest families replayed on the real code; a tracer handed back or a wrong value is a violation
    from checks import agm
    v2, cov2 = agm.run_agm("C06", tier, seed, [("fault", 2, None), ("nest", 2, None), ("ctrl", 2, None)], [("fault", 2, agm.MUT_TOP)],
                           "programs whose value is handed back to the top-level caller after nested, failing and retried differentiations",
                           agm.ASSUME, write=False)
    for k in ("states", "transitions", "traces_validated_against_impl", "evaluations", "distinct_nontrivial"):
        cov[k] += cov2[k]
    cov["engine_programs"] = {k: cov2[k] for k in ("families", "model_mutants_rejected", "traces_accepted", "rule")}
    v1.violations += v2.violations
    for k, n in v2.known_hits.items():
        v1.known_hits[k] = v1.known_hits.get(k, 0) + n
    from checks import algebra
    lay = algebra.c06_layers(v1, seed)
    cov["states"] += lay["states"]
    cov["transitions"] += lay["transitions"]
    cov["traces_validated_against_impl"] += lay["operator_cases"] + lay["container_cases"]
    cov["evaluations"] += lay["operator_cases"] + lay["container_cases"]
    cov["operators_and_containers"] = lay
    rc = v1.finish()
    vlib.write_evidence("C06", tier, seed, "model_checking", cov, ASSUME + agm.ASSUME, time.time() - t0, len(v1.violations))
    return rc


SECOND_FAMILIES = {k: v for k, v in FAMILIES.items() if k not in ("kink",)}


def c07_second(tier, seed):
    return run_rules("C07", tier, seed, SECOND_FAMILIES, {"linalg": 450, "*": 120}, RULE, ASSUME, write=False)


INDEX_FAMILY = {"index": (2, 3, ["rr"]), "mixorder": (2, 2, ["rr"])}


def c03_multi(tier, seed):
    return run_rules("C03", tier, seed, INDEX_FAMILY, {"index": 350, "mixorder": 120}, RULE, ASSUME, write=False)


def c11_index(tier, seed):
    return run_rules("C11", tier, seed, INDEX_FAMILY, 900, RULE, ASSUME, write=False)


def merge(v1, cov, v2, cov2, key, keep=("families", "not_evaluated", "calls_that_raised", "observations_rejected_by_contract", "primitives_covered", "rule")):
    """fold the result of a rule-table sub-run (v2, cov2) into the main verdict / coverage of a property"""
    for k in ("states", "transitions", "traces_validated_against_impl", "evaluations", "distinct_nontrivial"):
        cov[k] += cov2[k]
    cov[key] = {k: cov2[k] for k in keep if k in cov2}
    v1.violations += v2.violations
    for k, n in v2.known_hits.items():
        v1.known_hits[k] = v1.known_hits.get(k, 0) + n
    cov["known_findings_reobserved"] = v1.known_hits


def c08_rules(tier, seed):
    """C08 inside the rules: the cotangent handed to an inner rule is a traced value of the enclosing differentiation and may be exactly
    zero there; d/dg vjp(g) at g = 0 (forward over reverse) and d/dv jvp(v) at v = 0 must still be the rule's own linear map
    (Contract!LinearAtZero) - on the families where operands are broadcast / reduced"""
    fams = {k: FAMILIES[k] for k in ("binary", "where", "reduce", "contract", "extend", "unary")}
    return run_rules("C08", tier, seed, fams, 300, RULE, ASSUME, write=False)


def c19_history(verdict, tier, seed):
    """C19 on the rule tables (TraceHistory.tla): a sample of call configurations - all real-FFT ones plus a stratified sample of every
    family - is evaluated in two fresh processes that run the list in opposite orders; the reverse- and forward-mode matrices of every
    configuration must be bit-identical in both (nothing a rule computes may be remembered across calls)"""
    rng = random.Random(seed + 19)
    quick = tier == "quick"
    cfgs = []
    st = tr = 0
    for fam, (rq, rt, kinds) in FAMILIES.items():
        if fam in ("kink", "single", "scipy"):
            continue
        allc, r = enumerate_family(fam, rq, kinds)
        st += r.distinct
        tr += r.generated
        if fam == "fft":
            chosen = [c for c in allc if c["prim"].startswith(("rfft", "irfft")) and c["st"] in ("none", "ortho")]
            chosen = stratified(chosen, 260 if quick else 1200, rng) + stratified(allc, 60, rng)
        else:
            chosen = stratified(allc, 40 if quick else 200, rng)
            if fam in ("special", "join"):
                # calls that warn: a rule that divides by a result that is exactly 0 (std / var of equal entries), the slow-path hint of r_ / c_ -
                # with warnings promoted to errors these raise INSIDE a rule or a wrapper, the place where state is most easily left behind
                seen_ = {json.dumps(c, sort_keys=True) for c in chosen}
                chosen += [c for c in allc if c["prim"] in ("std", "var", "r_", "c_") and json.dumps(c, sort_keys=True) not in seen_][:60]
            if fam == "extend":
                # registrations through the pre-1.2 methods of the primitive object (their bookkeeping is per primitive - or should be): a
                # third of them register the rule of ONE argument only and expect the other one to raise, whatever was registered before
                seen_ = {json.dumps(c, sort_keys=True) for c in chosen}
                chosen += [c for c in allc if c["form"] in ("deprecated", "defgrad") and c["ia"] == 0 and json.dumps(c, sort_keys=True) not in seen_][:90]
        cfgs += [dict(c, dk=seed % 7) for c in chosen]
    rng.shuffle(cfgs)
    for i, c in enumerate(cfgs):
        c["id"] = i + 1
    a, _ = vlib.parallel_replay("rule_replay.py", cfgs, nproc=1, tag="hist-a")
    b, _ = vlib.parallel_replay("rule_replay.py", cfgs[::-1], nproc=1, tag="hist-b")

    # the same with every warning promoted to an error: the join / rearrangement / reduction configurations (the library's own warnings -
    # the slow-path hint of r_/c_, the independence warning - and NumPy's) in both orders; a warning that is only issued the first time
    # makes the outcome of a later call depend on the earlier one
    wfams = ("join", "rearr", "reduce", "where", "index", "special", "extend")
    wcfgs = [c for c in cfgs if c["fam"] in wfams]
    wcfgs = [c for c in wcfgs if c["prim"] in ("std", "var", "r_", "c_")] + [c for c in wcfgs if c["prim"] not in ("std", "var", "r_", "c_")][:400 if quick else 2000]
    rng.shuffle(wcfgs)
    # ... and with a fault injected into every backward rule: the cotangent handed to the VJP function raises at its 1st / 2nd / 3rd
    # NumPy operation (harness/rule_replay.py: BombArray); the ambient NumPy state after each configuration is part of its signature
    wa, _ = vlib.parallel_replay("rule_replay.py", wcfgs, nproc=1, tag="hist-wa", extra_args=("--warnings-error", "--faults"))
    wb, _ = vlib.parallel_replay("rule_replay.py", wcfgs[::-1], nproc=1, tag="hist-wb", extra_args=("--warnings-error", "--faults"))

    def sig(o):
        if o["status"] != "ok":
            return o["status"].split(":")[0]
        return "%s/%s/%s%s" % (o["vjp"].get("digest") or o["vjp"].get("raised"), o["jvp"].get("digest") or o["jvp"].get("raised"), o.get("npstate", ""),
                               "/late" if o["vjp"].get("late") else "")
    sb = {o["id"]: sig(o) for o in b}
    rows = [{"id": o["id"], "first": sig(o), "second": sb.get(o["id"], "missing")} for o in a]
    nplain = len(rows)
    swb = {o["id"]: sig(o) for o in wb}
    off = len(cfgs)
    rows += [{"id": off + o["id"], "first": sig(o), "second": swb.get(o["id"], "missing")} for o in wa]
    d = vlib.subdir("judge-hist")
    f = vlib.write_ndjson(os.path.join(d, "h.ndjson"), rows)
    accepted, g2, d2, _w, _inv = vlib.parallel_validate("TraceHistory", [f], cfg="SPECIFICATION Spec\n", njvm=1)
    by = {c["id"]: c for c in cfgs}
    for r_ in rows:
        same = r_["first"] == r_["second"]
        if not vlib.reconcile("history row %d" % r_["id"], r_["id"] in accepted, same):
            werr = r_["id"] > off
            c = by[r_["id"] - off if werr else r_["id"]]
            fc = facets(c)
            fc["fails"] = ["history"]
            verdict.violation(fc, {"reason": "the outcome of this call%s depends on what was differentiated before it in the same process: "
                                             "%s when the list is run forwards, %s when it is run backwards" %
                                             (" (warnings promoted to errors)" if werr else "", r_["first"], r_["second"]), "cfg": c, "warnings_error": werr})
    return {"states": st + d2, "transitions": tr + g2, "configurations_run_in_both_orders": nplain,
            "configurations_run_in_both_orders_with_warnings_as_errors": len(rows) - nplain, "accepted": len(accepted)}


def c12_tuples(tier, seed):
    """C12 on the tuple-valued results of the library itself (eigh, eig, svd, slogdet return named tuples): every way of reading one
    component - index, negative index, slice then index, unpacking, iteration - propagates the derivative exactly and never raises"""
    return run_rules("C12", tier, seed, {"seltuple": (2, 2, ["rr"])}, 400, RULE, ASSUME, write=False)


def c10_rules(tier, seed):
    """C10 per primitive configuration (Contract!Reusable): ONE VJP function applied to the whole cotangent basis, then to the first
    cotangent again - a later call that raises or answers differently means the rule keeps state in its closure; inputs stay intact"""
    # (the kink family too: Reusable needs no Jacobian, and the rules guarded for exact zeros - abs, power - are where a result is patched)
    return run_rules("C10", tier, seed, FAMILIES, 250, RULE, ASSUME, write=False)


def c14_rules(tier, seed):
    """C14 on array arguments: a derivative declared zero (`None` rule: where's condition, harness-registered primitives that are
    piecewise constant in one argument) is an exact zero in the space of that argument, whatever the other shapes are"""
    return run_rules("C14", tier, seed, {"extend": FAMILIES["extend"], "where": FAMILIES["where"]}, 700, RULE, ASSUME, write=False)


def c17_rules(tier, seed):
    """C17 on array arguments of different shapes (broadcast against each other, output summed or not), rules given or declared None,
    registered positionally or through argnums=; both modes"""
    return run_rules("C17", tier, seed, {"extend": FAMILIES["extend"]}, 1500, RULE, ASSUME, write=False)


def c09(tier, seed, replay=None):
    return run_rules("C09", tier, seed, COMPLEX_FAMILIES, 1500, RULE, ASSUME)
