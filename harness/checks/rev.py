"""C03 / C10 / C11(mixing): reverse pass over arbitrary graphs.

 1. TLC checks the implementation-shaped model (RevImpl: toposort + backward_pass + add_outgrads ownership protocol)
    against its invariants and against the abstract spec RevAbs (refinement), exhaustively over a graph space.
 2. TLC exports the graph space (GenRev) and the session space (GenSess).
 3. Every exported graph is run as a real program on /repo (harness/rev_replay.py), events recorded.
 4. TLC validates every recorded trace against RevAbs (spec/trace/TraceRev.tla).
 5. Unaccepted traces are violations; a Python mirror names the failing clause (TLC is the judge: vlib.reconcile).
"""
import json
import os
import random
import time

import vlib
from rev_diag import diagnose, diagnose_fwd

MODEL_CFG = """CONSTANTS N = %(N)d MaxAr = %(MaxAr)d WithConst = %(WithConst)s KindMode = "%(KindMode)s" MaxCalls = %(MaxCalls)d
CONSTANTS CountPerNode = %(CountPerNode)s FirstMutable = %(FirstMutable)s MutAddNoneAliases = %(MutAddNoneAliases)s
SPECIFICATION Spec
INVARIANT OnceEach
INVARIANT DeadNeverApplied
INVARIANT AllLiveApplied
INVARIANT ResultIsPathSum
INVARIANT NoBadWrite
INVARIANT NoKeyError
INVARIANT AccIsDenseSum
PROPERTY UserMemoryIntact
PROPERTY AbsSpec
"""
GEN_CFG = """CONSTANTS N = %(N)d MaxAr = %(MaxAr)d WithConst = %(WithConst)s KindMode = "%(KindMode)s" Family = "%(Family)s"
SPECIFICATION Spec
"""
TRACE_CFG = """SPECIFICATION TSpec
INVARIANT ResultIsPathSum
INVARIANT DeadNeverApplied
INVARIANT OnlyAfterConsumers
INVARIANT CompleteWhenApplied
"""


def model(N, MaxAr=2, WithConst=False, KindMode="node", MaxCalls=1, mutant=None, timeout=14000):
    c = dict(N=N, MaxAr=MaxAr, WithConst="TRUE" if WithConst else "FALSE", KindMode=KindMode, MaxCalls=MaxCalls,
             CountPerNode="FALSE", FirstMutable="FALSE", MutAddNoneAliases="FALSE")
    if mutant:
        c[mutant] = "TRUE"
    return vlib.run_tlc("MCRevImpl", cfg=MODEL_CFG % c, workers=16, timeout=timeout, tag="MCRevImpl")


def export(N, MaxAr=2, WithConst=False, KindMode="node", Family="dag"):
    c = dict(N=N, MaxAr=MaxAr, WithConst="TRUE" if WithConst else "FALSE", KindMode=KindMode, Family=Family)
    r = vlib.tlc_must_pass(vlib.run_tlc("GenRev", cfg=GEN_CFG % c, workers=1, timeout=3000, tag="GenRev"), "GenRev")
    return [p for p in r.printed if isinstance(p, dict)], r


def sessions(K, MaxFault):
    r = vlib.tlc_must_pass(vlib.run_tlc("GenSess", cfg="CONSTANTS K = %d MaxFault = %d\nSPECIFICATION Spec\n" % (K, MaxFault),
                                        workers=1, tag="GenSess"), "GenSess")
    return [p for p in r.printed if isinstance(p, list)], r


FWD_CFG = """CONSTANTS NN = %(N)d MaxAr = %(MaxAr)d WithConst = %(WithConst)s KindMode = "%(KindMode)s" FwdFirstMutable = %(Mut)s
SPECIFICATION Spec
INVARIANT NoBadWrite
INVARIANT UserSeedIntact
INVARIANT StoredTangents
INVARIANT NonTracersHaveNone
INVARIANT AllApplied
INVARIANT ImplResult
INVARIANT TangentIsPathSum
INVARIANT ResultIsJv
INVARIANT ForwardEqualsReverse
INVARIANT OnlyTracers
PROPERTY AbsSpec
CHECK_DEADLOCK FALSE
"""
FWD_MODELS = {"quick": [dict(N=4, MaxAr=2, WithConst=True, KindMode="edge")],
              "thorough": [dict(N=3, MaxAr=3, WithConst=True, KindMode="edge"), dict(N=4, MaxAr=2, WithConst=True, KindMode="edge"), dict(N=5, MaxAr=2, WithConst=False, KindMode="node"),
                           dict(N=4, MaxAr=3, WithConst=False, KindMode="node")]}


def fwd_model(N, MaxAr=2, WithConst=False, KindMode="edge", mutant=False, timeout=14000):
    c = dict(N=N, MaxAr=MaxAr, WithConst="TRUE" if WithConst else "FALSE", KindMode=KindMode, Mut="TRUE" if mutant else "FALSE")
    return vlib.run_tlc("MCFwdImpl", cfg=FWD_CFG % c, workers=16, timeout=timeout, tag="MCFwdImpl")


def _run(pid, tier, seed, models, mutants, graph_sets, decorate, level_text, assumptions, design_rule, write=True, extra=None, forward=False):
    t0 = time.time()
    verdict = vlib.Verdict(pid)
    states = trans = 0
    model_notes = []
    for kw in models:
        r = vlib.tlc_must_pass(model(**kw), "RevImpl model %s" % kw)
        states += r.distinct
        trans += r.generated
        model_notes.append({"constants": kw, "distinct": r.distinct, "generated": r.generated, "depth": r.depth,
                            "wall_s": round(r.wall, 1)})
    killed = []
    for m, kw in mutants:
        r = model(mutant=m, **kw)
        if not r.violated:
            raise vlib.MachineryError("model mutant %s was not rejected by TLC (vacuity guard): %s" % (m, r.error))
        killed.append({"mutant": m, "violated": r.violated})
    # ---- export + decorate
    cases = []
    exported = 0
    for gs in graph_sets:
        graphs, r = export(**gs)
        exported += len(graphs)
        states += r.distinct
        trans += r.generated
        for g in graphs:
            g["family"] = gs
            cases.append(g)
    rng = random.Random(seed)
    cases = decorate(cases, rng)
    for i, c in enumerate(cases):
        c["id"] = i + 1
    # ---- replay on the real code
    traces, files = vlib.parallel_replay("rev_replay.py", cases, nproc=14, tag="rev")
    if len(traces) != len(cases):
        raise vlib.MachineryError("replay produced %d traces for %d cases" % (len(traces), len(cases)))
    # ---- TLC validates
    accepted, g2, d2, wall_v, inv_viol = vlib.parallel_validate("TraceRev", files, cfg=TRACE_CFG, njvm=14)
    states += d2
    trans += g2
    by_id = {t["id"]: t for t in traces}
    case_by_id = {c["id"]: c for c in cases}
    rejected = sorted(set(by_id) - accepted)
    napply = sum(1 for t in traces for e in t["events"] if e["e"] == "apply")
    for tid in rejected:
        tr = by_id[tid]
        d = diagnose(tr)
        if d is None:
            vlib.reconcile("trace %d" % tid, False, True)
            d = (0, vlib.UNNAMED)
        c = case_by_id[tid]
        facets = {"graph": tr["args"], "session": c["session"], "api": c.get("api"), "builtin": bool(c.get("builtin")),
                  "nodes": len(tr["args"])}
        verdict.violation(facets, {"failing_event": d[0], "reason": d[1], "trace": tr,
                                   "replay": "re-run: ./check %s --replay <this file>" % pid})
    # ---- the forward pass of the same programs: JVP-rule applications validated against FwdAbs (spec/trace/TraceFwd.tla)
    if forward:
        for kw in FWD_MODELS[tier]:
            r = vlib.tlc_must_pass(fwd_model(**kw), "FwdImpl model %s" % kw)
            states += r.distinct
            trans += r.generated
            model_notes.append({"module": "MCFwdImpl", "constants": kw, "distinct": r.distinct, "generated": r.generated, "wall_s": round(r.wall, 1)})
        r = fwd_model(mutant=True, **FWD_MODELS["quick"][0])
        if not r.violated:
            raise vlib.MachineryError("forward model mutant FwdFirstMutable was not rejected by TLC (vacuity guard)")
        killed.append({"mutant": "FwdFirstMutable", "violated": r.violated})
        facc, g3, d3, _w3, _i3 = vlib.parallel_validate("TraceFwd", files, cfg="SPECIFICATION TSpec\n", njvm=14)
        states += d3
        trans += g3
        nf = 0
        for tid in sorted(by_id):
            tr = by_id[tid]
            d = diagnose_fwd(tr)
            ok = vlib.reconcile("forward trace %d %s" % (tid, d), tid in facc, d is None)
            if not ok:
                nf += 1
                if tid in rejected:
                    continue          # already reported through the reverse-pass trace of the same case
                c = case_by_id[tid]
                verdict.violation({"graph": tr["args"], "session": c["session"], "api": c.get("api"), "builtin": bool(c.get("builtin")),
                                   "nodes": len(tr["args"]), "mode": "forward"},
                                  {"failing_event": d[0] if d else -1, "reason": d[1] if d else vlib.UNNAMED, "trace": tr})
        fwd_note = {"forward_traces_validated": len(by_id), "forward_traces_accepted": len(facc),
                    "jvp_rule_applications_validated": sum(len(t.get("fevents", [])) for t in traces)}
    # mirror must also reject nothing TLC accepted (sampled, cheap)
    for tid in list(accepted)[:2000]:
        if diagnose(by_id[tid]) is not None:
            raise vlib.MachineryError("TLC accepted trace %d but the Python mirror rejects it: %s" % (tid, diagnose(by_id[tid])))
    if inv_viol:
        raise vlib.MachineryError("abstract invariant violated during trace validation: %s" % inv_viol)
    distinct = len({(str(t["args"]), str(case_by_id[t["id"]]["session"]), bool(t.get("opaque"))) for t in traces
                    if len(t["args"]) >= 3})
    sample_ids = [traces[0]["id"], traces[len(traces) // 2]["id"], traces[-1]["id"]]
    coverage = {
        "states": states, "transitions": trans,
        "traces_validated_against_impl": len(traces),
        "traces_accepted": len(accepted & set(by_id)),
        "rule_application_events_validated": napply,
        "graphs_exported_by_tlc": exported,
        "evaluations": len(traces),
        "distinct_nontrivial": distinct,
        "rule": design_rule,
        "exhaustive": True,
        "models": model_notes,
        "model_mutants_rejected": killed,
        "samples": [{"case": {k: case_by_id[i][k] for k in ("args", "session", "api", "builtin", "ps")},
                     "events": by_id[i]["events"][:8], "jvp": by_id[i]["jvp"]} for i in sample_ids],
        "known_findings_reobserved": verdict.known_hits,
    }
    if forward:
        coverage["forward_pass"] = fwd_note
    if extra:
        coverage.update(extra(verdict, coverage))
    if not write:
        return verdict, coverage
    rc = verdict.finish()
    vlib.write_evidence(pid, tier, seed, "model_checking", coverage, assumptions, time.time() - t0, len(verdict.violations))
    return rc


ASSUME = [
    "TLC 1.8 (tla2tools.jar) evaluates the specs correctly; exact integer arithmetic in float64 below 2^30",
    "harness primitives registered through autograd.extend (defvjp/defvjp_argnum/defvjp_argnums, defjvp*) log their own rule "
    "applications; built-in operators are observed only through results, exceptions and memory snapshots",
    "graphs are bounded (<= 5 nodes, <= 3 argument slots exhaustively; star graphs <= 6 nodes); larger graphs are not explored here",
]


def _sess_pool(K, F):
    ss, _ = sessions(K, F)
    return ss


def c03(tier, seed, replay=None):
    if replay:
        return _replay("C03", replay)
    quick = tier == "quick"

    def decorate(cases, rng):
        for i, c in enumerate(cases):
            c["session"] = [{"g": rng.choice([1, 3]), "fault": 0}]
            c["api"] = (i + seed) % 6
            c["builtin"] = (i + seed) % 5 == 4
            if (i + seed) % 4 == 1:       # one backward evaluation abandoned by a raising rule, then a complete one
                c["session"] = [{"g": rng.choice([1, 3]), "fault": rng.choice([1, 2, 3])}] + c["session"]
            c["jac"] = False
        return cases
    if quick:
        models = [dict(N=4, MaxAr=2, KindMode="node"), dict(N=3, MaxAr=2, WithConst=True, KindMode="edge"),
                  dict(N=3, MaxAr=3, KindMode="node")]
        mutants = [("CountPerNode", dict(N=3, MaxAr=2, KindMode="node"))]
        sets = [dict(N=4, MaxAr=2, KindMode="node"), dict(N=3, MaxAr=2, WithConst=True, KindMode="edge"),
                dict(N=3, MaxAr=3, KindMode="node"), dict(N=6, Family="share")]
    else:
        models = [dict(N=5, MaxAr=2, KindMode="node"), dict(N=4, MaxAr=2, WithConst=True, KindMode="edge"),
                  dict(N=3, MaxAr=3, WithConst=True, KindMode="edge")]
        mutants = [("CountPerNode", dict(N=4, MaxAr=2, KindMode="node")), ("FirstMutable", dict(N=4, MaxAr=2, KindMode="node")),
                   ("MutAddNoneAliases", dict(N=4, MaxAr=2, KindMode="node"))]
        sets = [dict(N=5, MaxAr=2, KindMode="node"), dict(N=4, MaxAr=2, WithConst=True, KindMode="edge"),
                dict(N=4, MaxAr=3, KindMode="node"), dict(N=3, MaxAr=3, WithConst=True, KindMode="edge"), dict(N=6, Family="share")]
    def extra(verdict, coverage):
        fan = fan_part(verdict, tier)
        coverage["states"] += fan["states"]
        coverage["transitions"] += fan["transitions"]
        coverage["traces_validated_against_impl"] += fan["runs"]
        coverage["evaluations"] += fan["runs"]
        if quick and not os.environ.get("VERIF_SUITE_TRACES"):
            return {"high_fan_out": fan}
        st = suite_traces(verdict)
        st_fan = fan
        coverage["states"] += st["states"]
        coverage["transitions"] += st["transitions"]
        coverage["traces_validated_against_impl"] += st["backward_passes_validated"]
        return {"repository_suite_traces": st, "high_fan_out": st_fan}
    t0 = time.time()
    v1, cov = _run("C03", tier, seed, models, mutants, sets, decorate, "", ASSUME,
                   "every graph of the exported space (all DAGs with multi-edges, diamonds, dead branches, constants; contribution kinds "
                   "alias/fresh/sparse) is one case; distinct_nontrivial counts distinct (graph, session, builtin?) triples with >= 3 nodes",
                   extra=extra, forward=True, write=False)
    # multi-edges inside ONE operation: a gather x[idx] whose index repeats an entry reaches the same input element over several
    # paths, and the contributions are summed by the sparse accumulation (np.add.at) - the index space of RuleSpace, clause RevExact
    from checks import rules
    v2, cov2 = rules.c03_multi(tier, seed)
    rules.merge(v1, cov, v2, cov2, "multi_edges_inside_a_gather")
    # Python control flow steered by the traced values includes try / except: programs of the engine model's fault family (an inner
    # differentiation raises, the enclosing differentiated function catches it and retries) and its ctrl family (branches, loops)
    from checks import agm
    v3, cov3 = agm.run_agm("C03", tier, seed, [("fault", 2, None), ("ctrl", 2, None)], [("fault", 2, agm.MUT_TOP)],
                           "fault and ctrl families of spec/engine/AGMProgs.tla", agm.ASSUME, write=False)
    v1.violations += v3.violations
    for k_ in ("states", "transitions", "traces_validated_against_impl", "evaluations", "distinct_nontrivial"):
        cov[k_] += cov3[k_]
    cov["control_flow_and_caught_failures"] = {k_: cov3[k_] for k_ in ("families", "model_mutants_rejected") if k_ in cov3}
    rc = v1.finish()
    vlib.write_evidence("C03", tier, seed, "model_checking", cov, ASSUME + rules.ASSUME, time.time() - t0, len(v1.violations))
    return rc


def c10(tier, seed, replay=None):
    if replay:
        return _replay("C10", replay)
    quick = tier == "quick"
    pool = _sess_pool(3, 2) if quick else _sess_pool(3, 3)
    multi = [s for s in pool if len(s) >= 2]

    def decorate(cases, rng):
        out = []
        for i, c in enumerate(cases):
            n = len(c["args"])
            if n <= 3 and not quick:
                picks = multi[(i + seed) % 7::7]
            else:
                picks = [multi[rng.randrange(len(multi))]]
            for s in picks:
                d = dict(c)
                d["session"] = s
                d["api"] = (i + seed) % 6
                d["builtin"] = (i + seed) % 3 == 2
                if d["builtin"]:
                    d["session"] = [dict(x, fault=0) for x in s]
                d["jac"] = (i + seed) % 4 == 1
                out.append(d)
        return out
    if quick:
        models = [dict(N=3, MaxAr=2, WithConst=True, KindMode="edge", MaxCalls=2), dict(N=3, MaxAr=3, KindMode="node", MaxCalls=2),
                  dict(N=4, MaxAr=2, KindMode="node")]
        mutants = [("FirstMutable", dict(N=3, MaxAr=2, KindMode="node")), ("MutAddNoneAliases", dict(N=3, MaxAr=2, KindMode="node"))]
        sets = [dict(N=4, MaxAr=2, KindMode="node"), dict(N=3, MaxAr=2, WithConst=True, KindMode="edge"),
                dict(N=3, MaxAr=3, KindMode="node"), dict(N=6, Family="share")]
    else:
        models = [dict(N=3, MaxAr=3, WithConst=True, KindMode="edge", MaxCalls=3), dict(N=4, MaxAr=2, KindMode="node", MaxCalls=2),
                  dict(N=5, MaxAr=2, KindMode="node")]
        mutants = [("FirstMutable", dict(N=4, MaxAr=2, KindMode="node")), ("MutAddNoneAliases", dict(N=4, MaxAr=2, KindMode="node"))]
        sets = [dict(N=4, MaxAr=2, WithConst=True, KindMode="edge"), dict(N=4, MaxAr=3, KindMode="node"),
                dict(N=3, MaxAr=3, WithConst=True, KindMode="edge"), dict(N=6, Family="share")]
    t0 = time.time()
    assume = ASSUME + [
        "inputs, captured constants and cotangents are passed as writeable=False arrays and snapshotted (every fourth case: writeable arrays, "
        "snapshots only - a read-only flag can hide an in-place write behind NumPy's own copy); results of earlier calls are "
        "snapshotted and compared after every later call"]
    v1, cov = _run("C10", tier, seed, models, mutants, sets, decorate, "", assume,
        "a case is (graph, session); sessions are TLC-enumerated sequences of 2..3 calls of one VJP function with cotangents from {1,3} "
        "and an optional injected rule failure per call; distinct_nontrivial counts distinct (graph, session, builtin?) with >= 3 nodes", write=False,
        forward=True)
    # the same property inside the rules of the built-in primitives: one VJP function applied to the whole cotangent basis and again
    from checks import rules
    v2, cov2 = rules.c10_rules(tier, seed)
    rules.merge(v1, cov, v2, cov2, "vjp_functions_of_builtin_primitives_reapplied")
    from checks import algebra
    vsn = algebra.c10_vspace(v1, seed)
    for k_ in ("states", "transitions"):
        cov[k_] += vsn[k_]
    cov["traces_validated_against_impl"] += vsn["cases"]
    cov["evaluations"] += vsn["cases"]
    cov["vector_space_layer_ownership"] = vsn
    # the library's own users of flatten / unflatten: the optimizers of autograd.misc (starting point intact, iterates handed to the
    # callback never changed afterwards, no memory shared between the result and the starting point)
    mp = algebra.misc_part(v1, "opt")
    cov["optimizers_ownership"] = mp
    for k_ in ("states", "transitions"):
        cov[k_] += mp[k_]
    cov["traces_validated_against_impl"] += mp["cases"]
    cov["evaluations"] += mp["cases"]
    rc = v1.finish()
    vlib.write_evidence("C10", tier, seed, "model_checking", cov, assume + rules.ASSUME, time.time() - t0, len(v1.violations))
    return rc


def fan_part(verdict, tier):
    """Fan.tla: one value consumed by K operations, K up to 1000 (thorough 5000); the closed form FanSum is tied to PathSum by a lemma
    model-checked for K <= 17; reverse mode (twice), forward mode judged by TraceFan"""
    r = vlib.tlc_must_pass(vlib.run_tlc("MCFan", cfg="CONSTANT MaxK = 17\nSPECIFICATION Spec\nINVARIANT Lemma\n", workers=4, timeout=900), "fan lemma")
    ks = [1, 2, 3, 64, 255, 256, 257, 258, 300, 1000] if tier == "quick" else [1, 2, 3, 17, 64, 128, 255, 256, 257, 258, 300, 512, 1000, 2000, 5000]
    pats = [["alias"], ["fresh"], ["alias", "fresh"], ["fresh", "fresh", "alias"]]
    cases = []
    for k in ks:
        for pi, p in enumerate(pats):
            for form in ("chain", "loop"):
                cases.append({"id": len(cases) + 1, "K": k, "pat": p, "g": 1 + 2 * ((k + pi) % 2), "form": form})
    obs, files = vlib.parallel_replay("fan_replay.py", cases, nproc=10, tag="fan")
    accepted, g2, d2, _w, _inv = vlib.parallel_validate("TraceFan", files, cfg="SPECIFICATION Spec\n", njvm=10)
    for o in obs:
        s = sum((1 if o["pat"][(i - 1) % len(o["pat"])] == "alias" else 2 + ((3 * (i + 1) + 1) % 5)) for i in range(1, o["K"] + 1))
        why = []
        if o["err"]:
            why.append(o["err"])
        else:
            if o["rev"] != [o["g"] * s, 2 * o["g"] * s]:
                why.append("reverse mode over a value with %d consumers returned %s, the sum over paths is %s" % (o["K"], o["rev"], [o["g"] * s, 2 * o["g"] * s]))
            if o["rev_again"] != o["rev"]:
                why.append("second application of the VJP function returned %s" % o["rev_again"])
            if o["fwd"] != [s, 2 * s]:
                why.append("forward mode returned %s, expected %s" % (o["fwd"], [s, 2 * s]))
            if not o["intact"]:
                why.append("caller memory modified")
        if not vlib.reconcile("fan observation %d %s" % (o["id"], why), o["id"] in accepted, not why) and not why:
            why = [vlib.UNNAMED]
        if why:
            verdict.violation({"family": "fan", "K": o["K"], "pat": o["pat"], "form": o["form"]}, {"reason": why, "case": {k_: o[k_] for k_ in ("K", "pat", "g", "form")}})
    return {"states": r.distinct + d2, "transitions": r.generated + g2, "runs": len(obs), "accepted": len(accepted), "fan_out_values": ks,
            "lemma": "PathSum(FanGraph(K, pat), 1) = FanSum(K, pat) model-checked for K <= 17 (more than one period of every pattern), 4 kind patterns"}


def suite_traces(verdict):
    """thorough tier of C03: run the repository's own test-suite under passive probes and validate every recorded backward pass
    (rule applications of the built-in primitives, structure only) against RevAbs.  Returns a coverage dict."""
    import glob
    import subprocess
    d = vlib.subdir("suite-probe")
    env = dict(os.environ, PYTHONPATH=vlib.REPO + os.pathsep + os.path.join(vlib.ROOT, "harness"), PYTHONDONTWRITEBYTECODE="1",
               AUTOGRAD_VERIF_PROBE="1", VERIF_PROBE_OUT=os.path.join(d, "probe"))
    p = subprocess.run([vlib.PY, "-m", "pytest", "-q", "-p", "no:cacheprovider", "-p", "verif_probe", "-o", "addopts=", "--timeout=900", "-n", "8",
                        os.path.join(vlib.REPO, "tests")], cwd=d, env=env, stdout=subprocess.PIPE, stderr=subprocess.STDOUT, text=True, timeout=3000)
    summary = p.stdout.strip().splitlines()[-1] if p.stdout.strip() else ""
    files = sorted(glob.glob(os.path.join(d, "probe.*")))
    traces = []
    for f in files:
        for line in open(f):
            traces.append(json.loads(line))
    if not traces:
        raise vlib.MachineryError("the probe recorded no backward pass while running the suite: %s" % summary)
    for i, t in enumerate(traces):
        t["id"] = i + 1
    parts = vlib.chunks(traces, 12)
    jfiles = [vlib.write_ndjson(os.path.join(d, "t%d.ndjson" % k), part) for k, part in enumerate(parts)]
    accepted, g2, d2, _w, inv = vlib.parallel_validate("TraceRevStruct", jfiles, cfg="SPECIFICATION TSpec\n", njvm=12, timeout=900)
    for t in traces:
        if t["id"] not in accepted:
            verdict.violation({"source": "repository test-suite", "nodes": len(t["args"])},
                              {"reason": "the order in which the built-in rules were applied in a backward pass of the repository's suite is not a "
                                         "behaviour of RevAbs (a rule applied twice, before its consumers, on a dead node, or missing)", "trace": t})
    return {"suite_result": summary, "backward_passes_validated": len(traces), "accepted": len(accepted), "states": d2, "transitions": g2,
            "largest_graph": max(len(t["args"]) for t in traces)}


def c19_sessions(tier, seed):
    """history part of C19 at the level of one VJP function: a call abandoned by a raising rule (at the 1st, 2nd, 3rd or 4th rule
    application) must not influence the next calls of the same function"""
    quick = tier == "quick"

    def decorate(cases, rng):
        out = []
        for i, c in enumerate(cases):
            for f in ((1, 2) if quick else (1, 2, 3, 4)):
                d = dict(c)
                d["session"] = [{"g": rng.choice([1, 3]), "fault": f}, {"g": rng.choice([1, 3]), "fault": 0}, {"g": 3, "fault": f + 1}, {"g": 1, "fault": 0}]
                d["api"] = (i + seed) % 6
                d["builtin"] = False
                d["jac"] = (i + f) % 5 == 0
                out.append(d)
        return out
    models = [dict(N=3, MaxAr=2, WithConst=True, KindMode="edge", MaxCalls=3)]
    sets = [dict(N=3, MaxAr=3, KindMode="node"), dict(N=6, Family="share")] + ([] if quick else [dict(N=4, MaxAr=2, KindMode="node")])
    return _run("C19", tier, seed, models, [], sets, decorate, "", ASSUME,
                "sessions of one VJP function: abandoned call, complete call, abandoned call, complete call", write=False)


def c11(tier, seed, replay=None):
    if replay:
        return _replay("C11", replay)
    quick = tier == "quick"

    def decorate(cases, rng):
        out = []
        for i, c in enumerate(cases):
            for b in (False, True):
                d = dict(c)
                d["session"] = ([{"g": 3, "fault": rng.choice([2, 3, 4])}] if (i % 3 == 1 and not b) else []) + \
                    [{"g": rng.choice([1, 3]), "fault": 0}] + ([{"g": 3, "fault": 0}] if i % 3 == 0 else [])
                d["api"] = (i + seed) % 6
                d["builtin"] = b
                d["jac"] = False
                d["intcot"] = (i + seed) % 5 == 2
                out.append(d)
        return out
    models = [dict(N=4, MaxAr=2, KindMode="edge")] if quick else [dict(N=4, MaxAr=2, KindMode="edge"), dict(N=4, MaxAr=3, KindMode="node"),
                                                                   dict(N=5, MaxAr=2, KindMode="node")]
    mutants = [("MutAddNoneAliases", dict(N=3, MaxAr=2, KindMode="node"))]
    sets = [dict(N=3, Family="star"), dict(N=2, Family="star")] if quick else [dict(N=4, Family="star"), dict(N=3, Family="star"),
                                                                           dict(N=2, Family="star")]
    t0 = time.time()
    v1, cov1 = _run("C11", tier, seed, models, mutants, sets, decorate, "", ASSUME,
                    "star graphs: one value with k sparse and m dense uses (k+m <= 3 quick / 4 thorough, plus an optional direct use), every "
                    "assignment of contribution kinds to positions = every arrival order at the shared value; each run with logging "
                    "primitives (SparseObject contributions) and with built-in x[idx] / * / + operators", write=False)
    # second half of the property: every index expression scatters exactly (rule-table machinery, judged by Contract!C11)
    from checks import rules
    v2, cov2 = rules.c11_index(tier, seed)
    cov = dict(cov1)
    cov["states"] += cov2["states"]
    cov["transitions"] += cov2["transitions"]
    cov["traces_validated_against_impl"] += cov2["traces_validated_against_impl"]
    cov["evaluations"] += cov2["evaluations"]
    cov["distinct_nontrivial"] += cov2["distinct_nontrivial"]
    cov["index_expressions"] = {k: cov2[k] for k in ("families", "not_evaluated", "calls_that_raised", "observations_rejected_by_contract",
                                                      "exact_tier", "projection_tier", "rule")}
    # third part: indexing inside programs that are differentiated once, twice and three times in every mode sequence (AGM family mix:
    # the deferred scatter meets a dense cotangent that is itself a traced value of an enclosing differentiation)
    from checks import agm
    v3, cov3 = agm.run_agm("C11", tier, seed, [("mix", 2 if quick else 3, None)], [],
                           "mix family of the abstract machine: u = y^2, v = y^3, (u+v)^2 + take(w)^2 with take = x[idx] over all entries", agm.ASSUME, write=False)
    for k in ("states", "transitions", "traces_validated_against_impl", "evaluations", "distinct_nontrivial"):
        cov[k] += cov3[k]
    cov["indexing_under_nested_differentiation"] = {k: cov3[k] for k in ("families", "traces_accepted", "rule")}
    v1.violations += v3.violations
    cov["samples"] = cov1["samples"][:2] + cov2["samples"][:2]
    cov["known_findings_reobserved"] = dict(v1.known_hits, **v2.known_hits)
    v1.violations += v2.violations
    for k, n in v2.known_hits.items():
        v1.known_hits[k] = v1.known_hits.get(k, 0) + n
    rc = v1.finish()
    vlib.write_evidence("C11", tier, seed, "model_checking", cov, ASSUME + rules.ASSUME, time.time() - t0, len(v1.violations))
    return rc


def _replay(pid, path):
    import json
    d = json.load(open(path))
    c = d["case"]
    case = {"id": 1, "args": c["graph"], "session": c["session"], "api": c.get("api", 0), "builtin": c.get("builtin", False), "jac": True}
    traces, files = vlib.parallel_replay("rev_replay.py", [case], nproc=1, tag="replay1")
    accepted, _, _, _, _ = vlib.parallel_validate("TraceRev", files, cfg=TRACE_CFG, njvm=1)
    diag = diagnose(traces[0])
    print(json.dumps(traces[0], indent=1))
    if 1 in accepted and diag is None:
        print("replay: trace accepted by RevAbs")
        return vlib.EXIT_OK
    print("VIOLATION property=%s replay=%s  %s" % (pid, path, diag))
    return vlib.EXIT_VIOLATION
