"""Interpreter of AGM programs (spec/engine/AGM.tla) over the real autograd.

usage: agm_replay.py <cases.json> <out.ndjson>
A case is {"id", "prog": {bodies, threads, warnerr}, "variant": int, optional "schedule": [...]}.
Output per case: {"id", "prog", "obs": [per thread {"k": "val"|"exc"|"error", ...}], "ids": [per thread trace ids], "top_after": int}
"""
import json
import sys
import threading
import warnings

import numpy as onp

import autograd.numpy as anp
from autograd import make_vjp, make_jvp, grad, deriv, checkpoint
from autograd.core import vspace
from autograd.extend import defvjp_argnum, defvjp_argnums, defjvp_argnum, defjvp_argnums, def_linear
from autograd.core import VJPNode, JVPNode
from autograd.extend import primitive, defvjp, defjvp
from autograd.tracer import register_notrace, trace_stack, isbox

FALLBACK = -5.0


class UserFault(Exception):
    pass


@primitive
def nd_prim(x):
    return x


register_notrace(VJPNode, nd_prim)
register_notrace(JVPNode, nd_prim)


@primitive
def bomb(x):
    return x


def _boom(*a, **k):
    raise UserFault("rule of bomb")


defvjp(bomb, lambda ans, x: _boom)
defjvp(bomb, lambda g, ans, x: _boom())


def make_user(table, variant):
    """The product primitive user(a1..an, scale=1) registered through one of the public extension APIs.
    table[i] in {"rule", "zero", "missing"}.  Every API must give the same behaviour."""
    n = len(table)

    @primitive
    def user(*a, scale=1.0):
        r = scale
        for x in a:
            r = r * x
        return r

    def contribution(i, g, ans, a, scale):
        r = scale * g
        for j, x in enumerate(a):
            if j != i:
                r = r * x
        full = scale
        for x in a:
            full = full * x
        return r + (ans - full) * g          # the rule really receives the primitive's output: otherwise this is not zero

    def missing(i):
        raise NotImplementedError("no rule for argument %d" % i)
    vapi = variant % 3
    if vapi == 0:
        nums = [i for i in range(n) if table[i] != "missing"]
        rules = [None if table[i] == "zero" else
                 (lambda ans, *a, _i=i, scale=1.0: lambda g: contribution(_i, g, ans, a, scale)) for i in nums]
        if nums == list(range(len(nums))) and variant % 2 == 0:
            defvjp(user, *rules)
        else:
            defvjp(user, *rules, argnums=nums)
    elif vapi == 1:
        def maker(argnum, ans, a, kwargs):
            if table[argnum] == "missing":
                missing(argnum)
            if table[argnum] == "zero":
                return lambda g: vspace(a[argnum]).zeros()
            return lambda g: contribution(argnum, g, ans, a, kwargs.get("scale", 1.0))
        defvjp_argnum(user, maker)
    else:
        def maker(argnums, ans, a, kwargs):
            for i in argnums:
                if table[i] == "missing":
                    missing(i)
            return lambda g: tuple(vspace(a[i]).zeros() if table[i] == "zero" else contribution(i, g, ans, a, kwargs.get("scale", 1.0))
                                   for i in argnums)
        defvjp_argnums(user, maker)
    japi = (variant // 3) % 4
    if japi >= 2 and any(t != "rule" for t in table):
        japi -= 2
    if japi == 0:
        nums = [i for i in range(n) if table[i] != "missing"]
        rules = [None if table[i] == "zero" else
                 (lambda g, ans, *a, _i=i, scale=1.0: contribution(_i, g, ans, a, scale)) for i in nums]
        defjvp(user, *rules, argnums=nums)
    elif japi == 1:
        def jmaker(argnum, g, ans, a, kwargs):
            if table[argnum] == "missing":
                missing(argnum)
            if table[argnum] == "zero":
                return vspace(ans).zeros()
            return contribution(argnum, g, ans, a, kwargs.get("scale", 1.0))
        defjvp_argnum(user, jmaker)
    elif japi == 2:
        def_linear(user)                     # multilinear: linear in each argument separately
    elif variant % 2 == 0:
        defjvp(user, *["same"] * n)
    else:
        # 'same' rules registered through argnums= in an order that differs from the positions (the product is linear in each argument)
        defjvp(user, *["same"] * n, argnums=list(range(n))[::-1])
    return user


TAKE_FORMS = [lambda: onp.array([0, 1]), lambda: slice(None), lambda: Ellipsis, lambda: onp.array([True, True]), lambda: [0, 1],
              lambda: slice(0, 2, 1)]


def has_take(prog):
    return any(ins.get("op") == "prim" and ins.get("p") == "take" for b in prog["bodies"] for ins in b)


class Ctx:
    """variant % 4 == 2: ARRAY MODE - every value is an array of shape (2,) with equal components (the program is elementwise), so the
    ArrayBox operators, unbroadcast and array vector spaces are on the path; the two components of every result must agree"""

    def __init__(self, prog, variant, sched=None, name=None):
        self.array_mode = variant % 4 == 2 or has_take(prog)
        self.ntake = 0
        self.user = make_user(prog["utable"], variant) if prog.get("utable") else None
        self.prog = prog
        self.bodies = prog["bodies"]
        self.variant = variant
        self.ids = []
        self.sched = sched
        self.name = name
        self.shared_ops = False

    def point(self, label):
        """yield point = start of an instruction = boundary between two steps of the abstract machine"""
        if self.sched is not None:
            self.sched.point(self.name, label)


class Frame:
    __slots__ = ["regs", "link"]

    def __init__(self, regs, link):
        self.regs = regs
        self.link = link


def val(fr, ref):
    if ref["up"] == -1:
        return float(ref["r"])
    f = fr
    for _ in range(ref["up"]):
        f = f.link
    return f.regs[ref["r"] - 1]


def prim(ctx, p, a):
    v = ctx.variant
    if p == "add":
        return a[0] + a[1] if v % 2 == 0 else anp.add(a[0], a[1])
    if p == "mul":
        return a[0] * a[1] if v % 2 == 0 else anp.multiply(a[0], a[1])
    if p == "neg":
        return -a[0] if v % 2 == 0 else anp.negative(a[0])
    if p == "take":
        # x[idx] with idx selecting every entry exactly once: value-wise the identity, but through ArrayBox.__getitem__ / untake /
        # the deferred scatter-add of the backward pass (programs with take always run in array mode)
        if not isbox(a[0]) and onp.ndim(a[0]) == 0:
            return a[0]          # a plain constant of the program: nothing to index
        idx = TAKE_FORMS[(v + ctx.ntake) % len(TAKE_FORMS)]()
        ctx.ntake += 1
        return a[0][idx]
    if p == "nd":
        return nd_prim(a[0]) if v % 3 != 2 else anp.floor(a[0])
    if p == "bomb":
        return bomb(a[0])
    if p == "user":
        sc = ctx.prog.get("uscale", 1)
        return ctx.user(*a) if sc == 1 else ctx.user(*a, scale=float(sc))
    raise ValueError(p)


def _shared_body(y, ctx, b, fr):
    ctx.ids.append(y._trace if isbox(y) else None)
    return run_body(ctx, b, [y], fr)


# ONE operator object per kind for the whole process: every thread and every nesting level calls the same grad / make_vjp / make_jvp
# object (a module-level `dfdx = grad(f)`), telling the levels apart by extra positional arguments (C20: shared_ops cases)
SHARED = {}


def shared_op(kind):
    if kind not in SHARED:
        SHARED[kind] = {"vjp": make_vjp, "jvp": make_jvp, "grad": grad}[kind](_shared_body)
    return SHARED[kind]


def run_body(ctx, b, regs0, link):
    fr = Frame(list(regs0), link)
    for ins in ctx.bodies[b - 1]:
        op = ins["op"]
        ctx.point(op)
        if op == "prim":
            fr.regs.append(prim(ctx, ins["p"], [val(fr, r) for r in ins["a"]]))
        elif op == "diff":
            at, seed = val(fr, ins["at"]), val(fr, ins["seed"])
            if ctx.array_mode:
                if not isbox(at) and onp.ndim(at) == 0:
                    at = onp.ones(2) * at
                if not isbox(seed) and onp.ndim(seed) == 0:
                    seed = onp.ones(2) * seed

            def f(y, ins=ins, fr=fr):
                ctx.ids.append(y._trace if isbox(y) else None)
                return run_body(ctx, ins["b"], [y], fr)
            if ctx.shared_ops:
                if ins["mode"] == "vjp":
                    vjp, _v = shared_op("vjp")(at, ctx, ins["b"], fr)
                    r = vjp(seed)
                else:
                    _v, r = shared_op("jvp")(at, ctx, ins["b"], fr)(seed)
            elif ins["mode"] == "vjp":
                if ctx.variant % 5 == 3 and not ctx.array_mode and seed == 1.0 and not ctx.prog.get("warnerr"):
                    r = grad(f)(at)       # same thing through the public convenience wrapper
                else:
                    vjp, _v = make_vjp(f)(at)
                    r = vjp(seed)
                    if (ctx.variant // 3) % 2 == 1:
                        r = vjp(seed)     # a VJP function may be applied again: the second application is the one that is used
            else:
                _v, r = make_jvp(f)(at)(seed)
            fr.regs.append(r)
        elif op == "try":
            try:
                v = run_body(ctx, ins["b"], [], fr)
            except (UserFault, UserWarning):
                v = FALLBACK
            fr.regs.append(v)
        elif op == "call":
            fr.regs.append(run_body(ctx, ins["b"], [], fr))
        elif op == "ckpt":
            args = [val(fr, r) for r in ins["a"]]
            if len(args) >= 2 and not isbox(args[-1]) and ctx.variant % 2 == 1:
                # a non-differentiated trailing argument passed by keyword (with a different default): it must reach the recomputation too
                fr.regs.append(checkpoint(lambda *ys, last=1.0, ins=ins, fr=fr: run_body(ctx, ins["b"], list(ys) + [last], fr))(*args[:-1], last=args[-1]))
            else:
                fr.regs.append(checkpoint(lambda *ys, ins=ins, fr=fr: run_body(ctx, ins["b"], list(ys), fr))(*args))
        elif op == "if":
            c = val(fr, ins["c"])
            pos = c > 0
            pos = bool(pos.all()) if hasattr(pos, "all") else bool(pos)
            fr.regs.append(run_body(ctx, ins["bt"] if pos else ins["bf"], [], fr))
        elif op == "raise":
            raise UserFault("raise instruction")
        elif op == "ret":
            return val(fr, ins["a"])
        else:
            raise ValueError(op)
    raise ValueError("body without ret")


def to_obs(v):
    if isbox(v):
        return {"k": "error", "type": "BoxLeak", "msg": "a tracer was handed back to the top-level caller: %r" % type(v).__name__}
    try:
        if onp.ndim(v) == 1:
            a = onp.asarray(v, dtype=float)
            if a.shape != (2,) or a[0] != a[1]:
                return {"k": "error", "type": "ComponentsDiffer", "msg": repr(a)[:100]}
            v = a[0]
        f = float(v)
    except Exception as ex:     # noqa
        return {"k": "error", "type": "NotScalar", "msg": repr(v)[:100]}
    if f != f or abs(f) >= 2 ** 31 or f != int(f):
        return {"k": "error", "type": "NotInt", "msg": repr(f)}
    return {"k": "val", "v": int(f)}


def run_thread(ctx, th):
    try:
        x0 = float(th["input"])
        v = run_body(ctx, th["main"], [onp.array([x0, x0]) if ctx.array_mode else x0], None)
        return to_obs(v)
    except (UserFault, UserWarning):
        return {"k": "exc"}
    except (NotImplementedError, KeyError) as ex:
        if "missing" in (ctx.prog.get("utable") or []):     # a request without a registered rule must raise (any exception type)
            return {"k": "exc"}
        return {"k": "error", "type": type(ex).__name__, "msg": str(ex)[:200]}
    except Exception as ex:     # noqa
        return {"k": "error", "type": type(ex).__name__, "msg": str(ex)[:200]}


def registries():
    """the process-global tables that differentiation calls must never alter (C19)"""
    from autograd.core import primitive_vjps, primitive_jvps, VSpace
    from autograd.tracer import notrace_primitives, Box
    return {"vjps": {id(k): id(v) for k, v in primitive_vjps.items()}, "jvps": {id(k): id(v) for k, v in primitive_jvps.items()},
            "notrace": frozenset((getattr(k, "__name__", repr(k)), frozenset(map(id, v))) for k, v in notrace_primitives.items()),
            "boxes": {id(k): id(v) for k, v in Box.type_mappings.items()}, "vspaces": {id(k): id(v) for k, v in VSpace.mappings.items()},
            # ambient interpreter state a differentiation call has no business changing: NumPy's floating-point error modes and print options
            "np": (tuple(sorted(__import__("numpy").geterr().items())), repr(sorted(__import__("numpy").get_printoptions().items())))}


def registries_ok(before, after):
    """nothing removed or rebound; new rule-table entries only for primitives created meanwhile (autograd.checkpoint creates one)"""
    for t in ("vjps", "jvps"):
        if any(after[t].get(k) != v for k, v in before[t].items()):
            return False
    return before["notrace"] == after["notrace"] and before["boxes"] == after["boxes"] and before["vspaces"] == after["vspaces"] \
        and before.get("np") == after.get("np")


def run_case(case):
    prog = case["prog"]
    out = {"id": case["id"], "prog": prog}
    reg0 = registries() if not prog.get("utable") else None
    if case["id"] % 4 == 1 and not prog.get("utable"):
        # history (C19): user code that re-wraps EXISTING primitives and gives the new objects rules of their own - a custom-gradient
        # alias of multiply, a checkpointed add - before this program runs.  The library's own primitives must be unaffected.
        try:
            alias = primitive(anp.multiply)
            defvjp(alias, lambda ans, x, y: lambda g: g * 0.0 + 7.0, lambda ans, x, y: lambda g: g * 0.0 - 5.0)
            defjvp(alias, lambda g, ans, x, y: g * 0.0 + 7.0, lambda g, ans, x, y: g * 0.0 - 5.0)
            checkpoint(anp.add)
            checkpoint(anp.negative)
        except Exception as ex:     # noqa
            out["history_error"] = type(ex).__name__
    with warnings.catch_warnings():
        warnings.simplefilter("error" if prog.get("warnerr") else "ignore")
        top0 = trace_stack.top
        if len(prog["threads"]) == 1 and not case.get("schedule"):
            ctx = Ctx(prog, case.get("variant", 0))
            out["obs"] = [run_thread(ctx, prog["threads"][0])]
            out["ids"] = [[i - (top0 + 1) if i is not None else -99 for i in ctx.ids]]
            out["sched"] = []
        else:
            from sched import run_threads
            obs, ids, baton = run_threads(case, Ctx, run_thread)
            out["obs"], out["ids"] = obs, ids
            if case.get("micro"):
                # micro mode: threads are frozen in the middle of machine steps; the schedule as executed = order in which steps ended
                out["sched"] = list(baton.ends)
                out["micro"] = {"frozen_mid_step": baton.frozen_mid_step, "ran_out_of_turn": baton.ran_out_of_turn}
            else:
                if baton.ends != list(case["schedule"])[:len(baton.ends)] and len(baton.ends) <= len(case["schedule"]):
                    out["sched_mismatch"] = [list(case["schedule"]), list(baton.ends)]
                out["sched"] = case["schedule"]
        out["top_drift"] = trace_stack.top - top0
    out["reg_ok"] = bool(reg0 is None or registries_ok(reg0, registries()))
    return out


def other_tracers_first():
    """history (C19): before any differentiation, the primitives the programs use are traced by ANOTHER kind of tracer - the graph
    recorder of autograd.misc.tracers, under which the non-differentiable functions are ordinary operations - and a primitive without
    rules is used (it raises) and only then declared non-differentiable.  Whatever a primitive remembers from that must not change how
    it behaves under differentiation."""
    try:
        from autograd.misc.tracers import const_graph
        g = const_graph(lambda x: x * anp.floor(x) + nd_prim(x) * x + anp.negative(x) * anp.add(x, 1.0) * anp.multiply(x, x))
        g(1.75)
        g(2.25)
    except Exception:     # noqa
        pass


def main():
    cases = json.load(open(sys.argv[1]))
    import re
    m = re.search(r"in(\d+)\.json$", sys.argv[1])
    if cases and m and int(m.group(1)) % 2 == 1:          # every second worker process
        other_tracers_first()
    with open(sys.argv[2], "w") as f:
        for c in cases:
            f.write(json.dumps(run_case(c)) + "\n")


if __name__ == "__main__":
    main()
