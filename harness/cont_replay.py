"""Replay of Containers.tla cases on the real autograd container machinery.

usage: cont_replay.py <cases.json> <obs.ndjson>
case: {"id", "tree", "prog": [{"acc": [steps], "w", "uselen"}], "outmode", "variant"}
"""
import json
import sys
import warnings

import numpy as onp

import autograd.numpy as np
from autograd import grad, make_vjp, make_jvp
from autograd.builtins import tuple as atuple, list as alist, dict as adict, isinstance as aisinstance
from autograd.misc.flatten import flatten
from autograd.tracer import isbox

warnings.simplefilter("ignore")
KEYS = ["a", "b", "c"]


LAYOUT = [0]      # memory layout of the array leaves (case["layout"]): a data refinement below the spec, which only sees "a leaf"


def leaf_value(path):
    base = 1.5 + sum((i + 1) * p for i, p in enumerate(path))
    if (sum(path) + len(path)) % 2 == 0:
        return float(base)
    lay = LAYOUT[0]
    if lay == 1:      # Fortran-ordered 2-D leaf
        return onp.asfortranarray(onp.array([[base, base + 0.25], [base + 0.5, base + 0.75]]))
    if lay == 2:      # transposed view (F-contiguous, does not own its data)
        return onp.array([[base, base + 0.25, base + 0.5], [base + 1.0, base + 1.25, base + 1.5]]).T
    if lay == 3:      # strided, neither C- nor F-contiguous
        return (base + 0.125 * onp.arange(16.0).reshape(4, 4))[::2, ::2]
    return onp.array([base, base + 0.25])


# lists and dicts that live across cases and are restructured IN PLACE between differentiations: results must not depend on
# what the same object looked like when it was differentiated before (C12 for mutable containers, C19)
PERSIST = {"list": [], "dict": {}}


def build_root(tree, variant):
    v = build(tree, [], variant)
    if variant >= 2 and tree["k"] in ("list", "dict"):
        obj = PERSIST[tree["k"]]
        obj.clear()
        if tree["k"] == "list":
            obj.extend(v)
        else:
            obj.update(v)
        return obj
    return v


def build(tree, path, variant):
    k = tree["k"]
    if k == "leaf":
        return leaf_value(path)
    kids = [build(c, path + [i + 1], variant) for i, c in enumerate(tree["items"])]
    if k == "tuple":
        return tuple(kids)
    if k == "list":
        return list(kids)
    pairs = list(zip(tree["keys"], kids))
    if variant % 2 == 1:
        pairs = pairs[::-1]          # insertion order differs from sorted key order
    return dict(pairs)


def leaf_sizes(tree, path):
    if tree["k"] == "leaf":
        return [int(onp.size(leaf_value(path)))]
    out = []
    for i, c in enumerate(tree["items"]):
        out += leaf_sizes(c, path + [i + 1])
    return out


def flatten_model(tree, value):
    """leaves of a real value in the model's flatten order"""
    if tree["k"] == "leaf":
        return [value]
    out = []
    if tree["k"] == "dict":
        for key, c in zip(tree["keys"], tree["items"]):
            out += flatten_model(c, value[key])
    else:
        for i, c in enumerate(tree["items"]):
            out += flatten_model(c, value[i])
    return out


def step(c, tree, st):
    s, i = st["s"], st["i"]
    n = len(tree["items"])
    if s == "idx":
        return c[i]
    if s == "slice":
        return c[st["a"]:st["b"]][i]
    if s == "iter":
        if tree["k"] == "dict":
            # iteration yields the keys (plain), values() the values, both in the dict's own order
            return dict(zip([k for k in c], c.values()))[tree["keys"][i]]
        return [v for v in c][i]
    if s == "unpack":
        if n == 1:
            (a0,) = c
            return a0
        if n == 2:
            a0, a1 = c
            return (a0, a1)[i]
        a0, a1, a2 = c
        return (a0, a1, a2)[i]
    if s == "catr":
        extra = (7.0,) if tree["k"] == "tuple" else [7.0]
        return (c + extra)[i]
    if s == "catl":
        extra = (7.0,) if tree["k"] == "tuple" else [7.0]
        return (extra + c)[i + 1]
    if s == "catr0":
        return (c + (() if tree["k"] == "tuple" else []))[i]
    if s == "catl0":
        return ((() if tree["k"] == "tuple" else []) + c)[i]
    if s == "resplit":
        return (c[:st["a"]] + c[st["a"]:])[i]
    if s == "key":
        return c[tree["keys"][i]]
    if s == "get":
        return c.get(tree["keys"][i])
    if s == "items":
        items = dict(c.items())          # order of .items() is the dict's own order: select by key
        return items[tree["keys"][i]]
    raise ValueError(s)


def child_index(st, tree):
    if st["s"] == "idx":
        return len(tree["items"]) + st["i"] if st["i"] < 0 else st["i"]
    if st["s"] == "slice":
        return st["a"] + st["i"]
    return st["i"]


def term_value(root, tree, term):
    c, t = root, tree
    for st in term["acc"]:
        nxt = step(c, t, st)
        t = t["items"][child_index(st, t)]
        c = nxt
    v = term["w"] * np.sum(c)
    if term["uselen"]:
        n = len(root)
        if isbox(n) or not isinstance(n, int):
            raise TypeError("len() returned %r" % type(n))
        v = v * n
    return v


def run(case):
    tree, prog, outmode, variant = case["tree"], case["prog"], case["outmode"], case.get("variant", 0)
    o = {"id": case["id"], "tree": tree, "prog": prog, "outmode": outmode, "err": "", "grad": [], "flat_ok": True, "unflat_ok": True,
         "commute_ok": True, "jvp": "skip", "jvp_expected": 0, "struct_ok": True, "type_ok": True, "val_ok": True}
    LAYOUT[0] = int(case.get("layout", 0))
    try:
        value = build_root(tree, variant)
        sizes = leaf_sizes(tree, [])

        whole = bool(case.get("whole"))

        def f(c):
            roots = [c, c, c]
            if whole:
                c3 = alist([c, c, c])          # the container used as a whole, three times
                roots = [c3[0], c3[1], c3[2]]
            if outmode == "scalar":
                tot = 0.0
                for i, term in enumerate(prog):
                    tv = term_value(roots[2 - i % 3], tree, term)     # the LAST copy first: its cotangent is the third to be accumulated
                    if case["id"] % 3 == 1:
                        # through autograd's own tuple / list constructors, next to CONSTANT elements (not last): the constants' slots carry zeros
                        tv = (atuple((1.5, tv, 0.5)) if i % 2 == 0 else alist([2.5, 0.25, tv]))[1 if i % 2 == 0 else 2]
                    tot = tot + tv
                return tot
            vals = [term_value(roots[2 - i % 3], tree, term) for i, term in enumerate(prog)]
            if outmode == "tuple":
                return atuple(vals)
            if outmode == "list":
                return alist(vals)
            # the ways autograd's dict can be constructed (mapping, pairs, keywords, mapping + keyword that overrides an entry: the
            # overridden value never reaches the result and gets no cotangent)
            names = ["t%d" % i for i in range(len(vals))]
            form = case["id"] % 4
            if form == 1 and vals:
                return adict(dict(zip(names, [vals[-1] * 3.0 + 1.0] + list(vals[1:]))), t0=vals[0])
            if form == 2:
                return adict(list(zip(names, vals)))
            if form == 3:
                return adict(**dict(zip(names, vals)))
            return adict(dict(zip(names, vals)))
        # type queries through autograd's isinstance answer as for the plain value
        def typed(c):
            ok = aisinstance(c, {"tuple": tuple, "list": list, "dict": dict}[tree["k"]]) if tree["k"] != "leaf" else True
            if not ok:
                raise TypeError("isinstance replacement answered False")
            return f(c)
        if tree["k"] == "leaf":
            o["err"] = "skip:leaf root"
            return o
        def scalars(v):
            if isinstance(v, dict):
                return [q for k in sorted(v) for q in scalars(v[k])]
            if isinstance(v, (tuple, list)):
                return [q for e in v for q in scalars(e)]
            return [float(q) for q in onp.ravel(onp.asarray(v, dtype=float))]
        plain_val = f(build_root(tree, variant))
        if outmode == "scalar":
            with warnings.catch_warnings():
                warnings.simplefilter("ignore")
                vjp0, val = make_vjp(typed)(value)
            o["val_ok"] = bool(not isbox(val) and scalars(val) == scalars(plain_val))
            if not prog:
                with warnings.catch_warnings():
                    warnings.simplefilter("ignore")
                    g = grad(typed)(value)
            else:
                g = grad(typed)(value)
        else:
            vjp, val = make_vjp(typed)(value)
            o["val_ok"] = bool(type(val) is type(plain_val) and scalars(val) == scalars(plain_val))
            if outmode == "dict":
                cot = {"t%d" % i: 1.0 for i in range(len(prog))}
            else:
                cot = (tuple if outmode == "tuple" else list)([1.0] * len(prog))
            g = vjp(cot)
        # the gradient has the structure of the argument: flatten it leaf by leaf
        gl = flatten_model(tree, g)
        vl = flatten_model(tree, value)
        if type(g) is not type(value):
            o["struct_ok"] = False
        out = []
        for gv, vv in zip(gl, vl):
            ga = onp.asarray(gv, dtype=float)
            if isbox(gv) or ga.shape != onp.shape(vv) or not onp.all(ga == ga.ravel()[0] if ga.size else True) or (ga.size and ga.ravel()[0] != round(ga.ravel()[0])):
                o["struct_ok"] = False
                out.append(-99999)
            else:
                out.append(int(ga.ravel()[0]) if ga.size else 0)
        o["grad"] = out
        # forward mode on the same function (container_take / make_sequence have JVPs; the extend primitives may not)
        if outmode == "scalar" and prog:
            o["jvp_expected"] = int(sum(gq * sz for gq, sz in zip(case["grad"], sizes)))
            try:
                def ones_like(v):
                    if isinstance(v, dict):
                        return {k: ones_like(x) for k, x in v.items()}
                    if isinstance(v, (tuple, list)):
                        return type(v)(ones_like(x) for x in v)
                    return onp.ones_like(v) if isinstance(v, onp.ndarray) else 1.0
                t = make_jvp(f)(value)(ones_like(value))[1]
                o["jvp"] = "val:%d" % int(round(float(t))) if float(t) == round(float(t)) else "val:nonint"
            except NotImplementedError:
                o["jvp"] = "raised"
        # flatten laws
        vec, unflatten = flatten(value)
        want = onp.concatenate([onp.ravel(v) for v in vl]) if vl else onp.array([])
        o["flat_ok"] = bool(onp.shape(vec) == want.shape and onp.array_equal(vec, want))
        back = unflatten(vec)
        o["unflat_ok"] = bool(json.dumps(to_plain(back)) == json.dumps(to_plain(value)) and same_types(back, value))
        if outmode == "scalar" and prog:
            g2 = grad(lambda v: f(unflatten(v)))(vec)
            gflat = flatten(g)[0]
            o["commute_ok"] = bool(onp.shape(g2) == onp.shape(gflat) and onp.array_equal(g2, gflat))
    except Exception as ex:     # noqa
        import traceback
        o["err"] = type(ex).__name__ + ": " + str(ex)[:150] + " @ " + traceback.format_exc().splitlines()[-3].strip()[:100]
    return o


def to_plain(v):
    if isinstance(v, dict):
        return {k: to_plain(v[k]) for k in sorted(v)}
    if isinstance(v, (tuple, list)):
        return [to_plain(x) for x in v]
    return onp.asarray(v).tolist()


def same_types(a, b):
    if isinstance(b, dict):
        return isinstance(a, dict) and sorted(a) == sorted(b) and all(same_types(a[k], b[k]) for k in b)
    if isinstance(b, (tuple, list)):
        return type(a) is type(b) and len(a) == len(b) and all(same_types(x, y) for x, y in zip(a, b))
    return onp.shape(a) == onp.shape(b)


def main():
    cases = json.load(open(sys.argv[1]))
    with open(sys.argv[2], "w") as fh:
        for c in cases:
            fh.write(json.dumps(run(c)) + "\n")


if __name__ == "__main__":
    main()
