"""Replay of Fan.tla: one value consumed by K operations, reverse and forward mode on the real code.
usage: fan_replay.py <cases.json> <obs.ndjson>     case = {id, K, pat, g, form}"""
import json
import sys

import numpy as onp

import autograd.numpy as np
from autograd import make_vjp, make_jvp


def weight(k, j, kd):          # Dags!Weight
    return 1 if kd == "alias" else 2 + ((3 * k + j) % 5)


def to_int(v):
    f = float(v)
    return int(f) if f == int(f) and abs(f) < 2 ** 30 else -(2 ** 30)


def run(c):
    K, pat, g, form = c["K"], c["pat"], c["g"], c.get("form", "chain")
    o = {"id": c["id"], "K": K, "pat": pat, "g": g, "form": form, "err": "", "rev": [], "rev_again": [], "fwd": [], "intact": True}
    x = onp.array([1.0, 2.0])
    snap = x.copy()

    def mids(v):
        out = []
        for i in range(1, K + 1):
            kd = pat[(i - 1) % len(pat)]
            out.append(v + 0.0 if kd == "alias" else weight(i + 1, 1, kd) * v)
        return out

    def f(v):
        m = mids(v)
        if form == "loop":              # the shared value enters a running sum, one step at a time (a weight used in every step of a loop)
            acc = 0.0
            for t in m:
                acc = acc + t
            return acc
        tot = m[0]
        for t in m[1:]:
            tot = tot + t
        return tot + 0.0 if K == 1 else tot
    try:
        vjp, _ = make_vjp(f)(x)
        cot = onp.array([float(g), 2.0 * g])
        csnap = cot.copy()
        r = onp.asarray(vjp(cot))
        o["rev"] = [to_int(r[0]), to_int(r[1])]
        r2 = onp.asarray(vjp(cot))
        o["rev_again"] = [to_int(r2[0]), to_int(r2[1])]
        v = onp.array([1.0, 2.0])
        t = onp.asarray(make_jvp(f)(x)(v)[1])
        o["fwd"] = [to_int(t[0]), to_int(t[1])]
        o["intact"] = bool(onp.array_equal(x, snap) and onp.array_equal(cot, csnap) and onp.array_equal(v, [1.0, 2.0]))
    except Exception as ex:     # noqa
        o["err"] = type(ex).__name__ + ": " + str(ex)[:160]
    return o


def main():
    cases = json.load(open(sys.argv[1]))
    with open(sys.argv[2], "w") as fh:
        for c in cases:
            fh.write(json.dumps(run(c)) + "\n")


if __name__ == "__main__":
    main()
