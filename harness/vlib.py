"""Shared machinery for the /verif checks: TLC driver, scratch space, evidence, known findings, verdicts.

Everything here is stdlib-only.  autograd itself is always imported from /repo's working tree by the
replay workers (PYTHONPATH is forced by ./check).
"""
import atexit
import json
import os
import re
import shutil
import subprocess
import sys
import tempfile
import time

ROOT = os.path.dirname(os.path.dirname(os.path.abspath(__file__)))
SPEC = os.path.join(ROOT, "spec")
REPO = os.environ.get("VERIF_REPO", "/repo")
JAR = "/opt/veriftools/tla/tla2tools.jar"
CM = "/opt/veriftools/tla/CommunityModules-deps.jar"
PY = "/venv/bin/python"

EXIT_OK, EXIT_VIOLATION, EXIT_MACHINERY = 0, 1, 2


class MachineryError(Exception):
    """The verification machinery itself failed (TLC crash, oracle inconsistency).  Exit code 2."""


# ----------------------------------------------------------------------------- scratch space
_scratch = None


def scratch():
    """Per-run scratch directory outside /repo and /verif, removed on exit."""
    global _scratch
    if _scratch is None:
        base = os.environ.get("VERIF_SCRATCH_BASE") or tempfile.gettempdir()
        _scratch = tempfile.mkdtemp(prefix="agverif-", dir=base)
        if not os.environ.get("VERIF_KEEP_SCRATCH"):
            atexit.register(shutil.rmtree, _scratch, True)
    return _scratch


def subdir(name):
    d = os.path.join(scratch(), name)
    os.makedirs(d, exist_ok=True)
    return d


# ----------------------------------------------------------------------------- TLC
class TLCResult:
    def __init__(self):
        self.generated = 0
        self.distinct = 0
        self.ok = False            # "No error has been found"
        self.violated = None       # name of violated invariant / property
        self.error = None          # other error text
        self.printed = []          # decoded JSON objects printed with PrintT(ToJson(..))
        self.tuples = []           # raw lines of the form <<...>>
        self.raw = ""
        self.wall = 0.0
        self.coverage = {}         # action name -> (distinct, taken) when -coverage is used
        self.depth = 0


_RE_STATES = re.compile(r"^(\d+) states generated, (\d+) distinct states found")
_RE_COV = re.compile(r"^<(\w+) line \d+, col \d+ to line \d+, col \d+ of module (\w+)>: (\d+):(\d+)")
_RE_DEPTH = re.compile(r"The depth of the complete state graph search is (\d+)")


def run_tlc(module, cfg=None, workers=1, consts=None, env=None, timeout=3600, coverage=False,
            simulate=None, extra=(), copy=(), serial_gc=None, heap=None, deadlock=False, tag=None):
    """Run TLC on spec/<module>.tla (copied with the whole spec tree into scratch) and parse the output.

    cfg      : text of the .cfg file (string) or None to use spec/<module>.cfg
    env      : extra environment (IOEnv.* values for the spec)
    simulate : None or the string after -simulate (e.g. "num=100")
    copy     : extra (filename, text) pairs written next to the spec
    """
    wd = subdir("tlc-%s-%d" % (tag or module, int(time.time() * 1000) % 10**9))
    for root, _dirs, files in os.walk(SPEC):
        for f in files:
            if f.endswith(".tla"):
                shutil.copy(os.path.join(root, f), os.path.join(wd, f))
    if cfg is None:
        found = None
        for root, _dirs, files in os.walk(SPEC):
            if module + ".cfg" in files:
                found = os.path.join(root, module + ".cfg")
        if not found:
            raise MachineryError("no cfg for " + module)
        cfg = open(found).read()
    with open(os.path.join(wd, module + ".cfg"), "w") as f:
        f.write(cfg)
    for name, text in copy:
        with open(os.path.join(wd, name), "w") as f:
            f.write(text)
    if serial_gc is None:
        serial_gc = workers == 1
    cmd = ["java", "-XX:+UseSerialGC" if serial_gc else "-XX:+UseParallelGC"]
    if heap:
        cmd.append("-Xmx" + heap)
    cmd += ["-cp", JAR + ":" + CM, "tlc2.TLC", "-workers", str(workers), "-noGenerateSpecTE",
            "-metadir", os.path.join(wd, "states"), "-config", module + ".cfg"]
    if not deadlock:
        cmd.append("-deadlock")
    if coverage:
        cmd += ["-coverage", "1"]
    if simulate:
        cmd += ["-simulate", simulate]
    cmd += list(extra)
    cmd.append(module + ".tla")
    e = dict(os.environ)
    if env:
        e.update({k: str(v) for k, v in env.items()})
    t0 = time.time()
    try:
        p = subprocess.run(cmd, cwd=wd, env=e, stdout=subprocess.PIPE, stderr=subprocess.STDOUT,
                           timeout=timeout, text=True, errors="replace")
    except subprocess.TimeoutExpired as ex:
        raise MachineryError("TLC timeout on %s after %ss" % (module, timeout)) from ex
    r = TLCResult()
    r.wall = time.time() - t0
    r.raw = p.stdout
    r.wd = wd
    for line in p.stdout.splitlines():
        m = _RE_STATES.match(line)
        if m:
            r.generated, r.distinct = int(m.group(1)), int(m.group(2))
            continue
        if line.startswith('"'):
            try:
                s = json.loads(line)
                r.printed.append(json.loads(s) if s[:1] in "{[" else s)
            except Exception:
                r.printed.append(line)
            continue
        if line.startswith("<<"):
            r.tuples.append(line)
            continue
        m = _RE_COV.match(line)
        if m:
            r.coverage[m.group(1)] = (int(m.group(3)), int(m.group(4)))
            continue
        m = _RE_DEPTH.search(line)
        if m:
            r.depth = int(m.group(1))
        if "No error has been found" in line:
            r.ok = True
        m = re.match(r"Error: Invariant (\S+) is violated", line)
        if m:
            r.violated = m.group(1)
        m = re.match(r"Error: Action property (\S+) is violated", line)
        if m:
            r.violated = m.group(1)
        if "Temporal properties were violated" in line:
            r.violated = r.violated or "temporal"
        if line.startswith("Error:") and r.error is None and r.violated is None:
            r.error = line
    if simulate and p.returncode == 0 and r.violated is None and r.error is None:
        r.ok = True
    if not r.ok and r.violated is None and r.error is None:
        r.error = "TLC exit %d: %s" % (p.returncode, p.stdout[-2000:])
    return r


def tlc_must_pass(r, what):
    if not r.ok or r.violated or r.error:
        raise MachineryError("%s: TLC did not pass (%s)\n%s" % (what, r.violated or r.error, r.raw[-3000:]))
    return r


def tuples_with(r, head):
    """ids from lines like <<"ACCEPT", 17>> (possibly several per line when workers interleave)."""
    out = []
    pat = re.compile(r'<<"%s", (-?\d+)>>' % re.escape(head))
    for line in r.tuples:
        out += [int(x) for x in pat.findall(line)]
    return out


# ----------------------------------------------------------------------------- evidence, findings, verdicts
def write_evidence(pid, tier, seed, level, coverage, assumptions, wall_s, violations, extra=None):
    d = {"property_id": pid, "tier": tier, "seed": int(seed), "level": level, "coverage": coverage,
         "assumptions": assumptions, "wall_s": round(wall_s, 2), "violations": int(violations)}
    if extra:
        d.update(extra)
    # evidence/ only ever describes runs against /repo itself; runs against a scratch tree (VERIF_REPO) are kept apart
    edir = os.path.join(ROOT, "evidence") if os.path.realpath(REPO) == "/repo" else os.path.join(ROOT, "out", "evidence-scratch")
    os.makedirs(edir, exist_ok=True)
    path = os.path.join(edir, pid + ".json")
    with open(path + ".tmp", "w") as f:
        json.dump(d, f, indent=1, sort_keys=True, default=str)
    os.replace(path + ".tmp", path)
    return path


def load_known():
    path = os.path.join(ROOT, "known_findings.json")
    if not os.path.exists(path):
        return []
    return json.load(open(path)).get("findings", [])


def _cmp(op, a, b):
    if op == "eq":
        return a == b
    if op == "ne":
        return a != b
    if op == "in":
        return a in b
    if a is None:
        return False
    if op == "ge":
        return a >= b
    if op == "gt":
        return a > b
    if op == "le":
        return a <= b
    if op == "lt":
        return a < b
    raise MachineryError("bad op " + op)


def finding_matches(finding, pid, facets):
    """A finding is {property, when: {facet: value | {op: value}}}.  All listed facets must match."""
    if pid not in finding.get("properties", [finding.get("property")]):
        return False
    for k, want in finding.get("when", {}).items():
        have = facets.get(k)
        if isinstance(want, dict):
            for op, v in want.items():
                if not _cmp(op, have, v):
                    return False
        elif have != want:
            return False
    return True


class Verdict:
    """Collects violations for one property, separates known findings, writes replay files."""

    def __init__(self, pid):
        self.pid = pid
        self.known = load_known()
        self.violations = []       # (facets, detail)
        self.known_hits = {}       # finding id -> count
        self.drift = []

    def violation(self, facets, detail):
        for f in self.known:
            if finding_matches(f, self.pid, facets):
                self.known_hits[f["id"]] = self.known_hits.get(f["id"], 0) + 1
                return False
        self.violations.append((facets, detail))
        return True

    def drift_note(self, msg):
        self.drift.append(msg)
        print("DRIFT property=%s %s" % (self.pid, msg))

    def finish(self):
        """Print KNOWN-FINDING / VIOLATION lines, write replay files, return the exit code."""
        for f in self.known:
            if f["id"] in self.known_hits:
                print("KNOWN-FINDING: property=%s %s (%s; %d cases re-observed)" %
                      (self.pid, f["id"], f["description"], self.known_hits[f["id"]]))
        if not self.violations:
            return EXIT_OK
        d = os.path.join(ROOT, "out", "replays", self.pid)
        os.makedirs(d, exist_ok=True)
        shown = 0
        for i, (facets, detail) in enumerate(self.violations):
            if shown >= 25:
                break
            path = os.path.join(d, "v%03d.json" % i)
            with open(path, "w") as fh:
                json.dump({"property": self.pid, "case": facets, "detail": detail}, fh, indent=1, default=str)
            print("VIOLATION property=%s replay=%s  %s" % (self.pid, path, _short(detail)))
            shown += 1
        if len(self.violations) > shown:
            print("... %d further violations of %s not listed" % (len(self.violations) - shown, self.pid))
        return EXIT_VIOLATION


def _short(x, n=300):
    s = x if isinstance(x, str) else json.dumps(x, default=str)
    return s if len(s) <= n else s[:n] + "..."


def seed():
    try:
        return int(os.environ.get("VERIF_SEED", "0"))
    except ValueError:
        return 0


def tier(argv_tier=None):
    t = argv_tier or os.environ.get("VERIF_TIER") or "quick"
    return "thorough" if t.startswith("t") else "quick"


# ----------------------------------------------------------------------------- replay workers
PY_SCIPY = "/opt/veriftools/pyvenv/bin/python"     # the tooling interpreter: numpy + scipy, autograd from /repo through PYTHONPATH


def run_worker(script, args, inp=None, timeout=3600, env=None, py=None):
    """Run harness/<script> under /venv/bin/python with autograd imported from /repo's working tree."""
    e = dict(os.environ)
    e["PYTHONPATH"] = REPO + os.pathsep + os.path.join(ROOT, "harness")
    e["PYTHONDONTWRITEBYTECODE"] = "1"
    e["PYTHONHASHSEED"] = "0"
    e["AUTOGRAD_VERIF_PROBE"] = "1"
    e.setdefault("OMP_NUM_THREADS", "1")
    e.setdefault("OPENBLAS_NUM_THREADS", "1")
    if env:
        e.update(env)
    if py and not os.path.exists(py):
        py = None        # no tooling interpreter: the SciPy templates then skip themselves ("no scipy") under the repository's interpreter
    cmd = [py or PY, os.path.join(ROOT, "harness", script)]
    cov = os.environ.get("VERIF_COVERAGE_DIR")
    if cov and not py:
        # diagnostic only (tools/impl_coverage.sh): which lines/branches of autograd the spec-driven replays execute
        os.makedirs(cov, exist_ok=True)
        cmd = [PY, "-m", "coverage", "run", "--branch", "--parallel-mode", "--source=" + os.path.join(REPO, "autograd"),
               "--data-file=" + os.path.join(cov, ".coverage"), os.path.join(ROOT, "harness", script)]
    p = subprocess.run(cmd + [str(a) for a in args], env=e, input=inp,
                       stdout=subprocess.PIPE, stderr=subprocess.PIPE, text=True, timeout=timeout, cwd=scratch())
    return p


UNNAMED = ("rejected by the TLA+ judge; the Python mirror (which only names the failing clause) did not reproduce the rejection - "
           "see the observation in the replay file")
MIRROR_NOTES = []


def reconcile(what, tlc_accepts, mirror_accepts):
    """TLC is the judge, the Python mirror only names the clause.  TLC rejects / mirror accepts: the observation IS a violation (reason
    UNNAMED) and the disagreement is noted; TLC accepts / mirror rejects: the mirror claims more than the specification - a machinery
    failure (exit 2), because following either side silently would be wrong."""
    if tlc_accepts and not mirror_accepts:
        raise MachineryError("TLC accepted %s but the Python mirror rejects it" % (what,))
    if not tlc_accepts and mirror_accepts:
        MIRROR_NOTES.append(str(what)[:300])
        print("NOTE mirror could not name the clause TLC rejected for %s" % (str(what)[:200],))
    return tlc_accepts


def chunks(xs, n):
    k = max(1, (len(xs) + n - 1) // n)
    return [xs[i:i + k] for i in range(0, len(xs), k)]


# ----------------------------------------------------------------------------- parallel replay / validation
def parallel_replay(script, cases, nproc=12, tag="replay", timeout=3600, extra_args=(), py=None):
    """Split cases over nproc worker processes running harness/<script> <in.json> <out.ndjson>; return list of traces."""
    import concurrent.futures as cf
    d = subdir(tag + "-%d" % (int(time.time() * 1000) % 10**9))
    parts = chunks(cases, nproc) if cases else []
    jobs = []
    for i, part in enumerate(parts):
        fin, fout = os.path.join(d, "in%d.json" % i), os.path.join(d, "out%d.ndjson" % i)
        with open(fin, "w") as f:
            json.dump(part, f)
        jobs.append((fin, fout))

    def one(job):
        p = run_worker(script, [job[0], job[1]] + list(extra_args), timeout=timeout, py=py)
        if p.returncode != 0:
            raise MachineryError("worker %s failed (%d): %s" % (script, p.returncode, p.stderr[-3000:]))
        return job[1]
    with cf.ThreadPoolExecutor(max_workers=nproc) as ex:
        outs = list(ex.map(one, jobs))
    traces = []
    for o in outs:
        with open(o) as f:
            for line in f:
                if line.strip():
                    traces.append(json.loads(line))
    return traces, outs


def parallel_validate(module, trace_files, cfg=None, njvm=8, timeout=3600, accept_head="ACCEPT", env=None):
    """Run the trace module once per trace file (IOEnv.TRACE_FILE), up to njvm JVMs at a time.
    Returns (accepted ids, summed generated states, summed distinct states, wall)."""
    import concurrent.futures as cf

    def one(tf):
        e = {"TRACE_FILE": tf}
        if env:
            e.update(env)
        r = run_tlc(module, cfg=cfg, workers=1, env=e, timeout=timeout, tag=module + os.path.basename(tf))
        if r.error or (not r.ok and not r.violated):
            raise MachineryError("trace validation %s crashed: %s" % (module, r.error))
        return r
    t0 = time.time()
    with cf.ThreadPoolExecutor(max_workers=njvm) as ex:
        rs = list(ex.map(one, trace_files))
    acc = set()
    gen = dist = 0
    viol = []
    for r in rs:
        acc |= set(tuples_with(r, accept_head))
        gen += r.generated
        dist += r.distinct
        if r.violated:
            viol.append(r.violated)
    return acc, gen, dist, time.time() - t0, viol


def write_ndjson(path, rows):
    with open(path, "w") as f:
        for r in rows:
            f.write(json.dumps(r) + "\n")
    return path


# ----------------------------------------------------------------------------- TLAPS
def run_tlapm(module_rel, timeout=900):
    """Check the proofs of spec/<module_rel> with tlapm in a scratch directory; returns (obligations, proved)."""
    wd = subdir("tlapm-%d" % (int(time.time() * 1000) % 10**9))
    src = os.path.join(SPEC, module_rel)
    shutil.copy(src, wd)
    try:
        p = subprocess.run(["tlapm", "--toolbox", "0", "0", os.path.basename(src)], cwd=wd, stdout=subprocess.PIPE, stderr=subprocess.STDOUT,
                           text=True, timeout=timeout)
    except (subprocess.TimeoutExpired, FileNotFoundError) as ex:
        raise MachineryError("tlapm failed to run: %s" % ex)
    m = re.search(r"All (\d+) obligations? proved", p.stdout)
    if m:
        return int(m.group(1)), int(m.group(1))
    m = re.search(r"(\d+)/(\d+) obligations? failed", p.stdout)
    if m:
        return int(m.group(2)), int(m.group(2)) - int(m.group(1))
    raise MachineryError("tlapm output not understood: %s" % p.stdout[-800:])
