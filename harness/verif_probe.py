"""pytest plugin (loaded with `-p verif_probe`, never installed into /repo): passive probes that record every backward pass the
repository's own tests perform - the graph reachable from the end node and the order in which the nodes' rules were applied.
Guarded by AUTOGRAD_VERIF_PROBE=1; writes ndjson to $VERIF_PROBE_OUT.<pid>."""
import json
import os

_MAX_NODES = 14
_MAX_TRACES = 150
_state = {"n": 0, "fh": None, "seen": set()}


def _install():
    import autograd.core as core
    orig = core.backward_pass

    def probed(g, end_node):
        if _state["n"] >= _MAX_TRACES:
            return orig(g, end_node)
        # collect the ancestors of the end node
        nodes, stack, idx = [], [end_node], {}
        while stack:
            nd = stack.pop()
            if id(nd) in idx:
                continue
            idx[id(nd)] = nd
            nodes.append(nd)
            stack.extend(nd.parents)
            if len(nodes) > _MAX_NODES:
                return orig(g, end_node)
        # number them so that parents come before children, the root first and the end node last
        indeg = {id(n): len(n.parents) for n in nodes}
        children = {id(n): [] for n in nodes}
        for n in nodes:
            for p in n.parents:
                children[id(p)].append(n)
        ready = [n for n in nodes if indeg[id(n)] == 0]
        if len(ready) != 1:
            return orig(g, end_node)
        order, num = [], {}
        while ready:
            n = ready.pop()
            if n is end_node and (ready or len(order) < len(nodes) - 1):
                # keep the end node for last
                if not ready:
                    pass
                else:
                    ready.insert(0, n)
                    continue
            num[id(n)] = len(order) + 1
            order.append(n)
            for c in children[id(n)]:
                indeg[id(c)] -= 1
                if indeg[id(c)] == 0:
                    ready.append(c)
        if len(order) != len(nodes) or order[-1] is not end_node:
            return orig(g, end_node)
        applied = []
        saved = []
        for n in nodes:
            v = n.vjp
            saved.append((n, v))

            def logged(gg, _v=v, _k=num[id(n)]):
                applied.append(_k)
                return _v(gg)
            n.vjp = logged
        try:
            return orig(g, end_node)
        finally:
            for n, v in saved:
                n.vjp = v
            args = [[{"p": num[id(p)], "kd": "fresh"} for p in n.parents] for n in order]
            key = json.dumps([args, applied])
            if key not in _state["seen"] and len(order) >= 2:
                _state["seen"].add(key)
                _state["n"] += 1
                if _state["fh"] is None:
                    _state["fh"] = open(os.environ["VERIF_PROBE_OUT"] + "." + str(os.getpid()), "w")
                _state["fh"].write(json.dumps({"id": _state["n"] + 100000 * (os.getpid() % 1000), "args": args, "order": applied}) + "\n")
                _state["fh"].flush()
    core.backward_pass = probed


if os.environ.get("AUTOGRAD_VERIF_PROBE") == "1" and os.environ.get("VERIF_PROBE_OUT"):
    _install()
