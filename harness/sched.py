"""Strict baton scheduler: real threads, but exactly one runs at a time and control changes hands only at the
yield points (the start of every program instruction = one step of the abstract machine), in the order given by a
TLC-generated schedule.  A stuck schedule is a machinery failure (never a verdict).

MICRO MODE (case["micro"] > 0): at a scheduled switch A -> B, thread A does not stop at the step boundary: it runs on *into* its next
machine step for a pseudo-random number of line events of autograd's own code (sys.settrace), is frozen there - in the middle of
tracer.trace / primitive.f_wrapped / backward_pass / a rule - while the other threads take their scheduled steps, and completes the
step when its next slot comes.  The slot of a step is where the step ENDS, so the order of step ends is still the exported schedule
(a step that completes before its budget is used up ran out of turn; the order of step ends actually observed is what is recorded and
handed to the trace spec).  In the specification a frozen step is a stuttering step: the machine's state changes are per thread."""
import os
import sys
import threading
import zlib


class SchedulerStuck(Exception):
    pass


class Baton:
    def __init__(self, schedule, timeout=30.0):
        self.schedule = list(schedule)
        self.pos = 0
        self.cv = threading.Condition()
        self.running = None
        self.waiting = set()
        self.done = set()
        self.timeout = timeout
        self.started = False
        self.trace = []
        self.micro_seed = 0
        self.mid = {}          # thread -> remaining line events before it freezes inside its current step
        self.instep = set()
        self.ends = []         # order in which machine steps ended (= the schedule as executed)
        self.frozen_mid_step = 0
        self.ran_out_of_turn = 0
        self.lazy = {}         # thread id -> Thread object not started yet (lifecycle mode)
        self.live = {}         # started lazily, to be joined when done
        self.births = 0
        self.deaths_joined = 0

    def _advance(self):
        # called with cv held, when nobody runs: hand the baton to the next scheduled thread that can take it
        if self.running is not None or not self.started:
            return
        while self.pos < len(self.schedule) and self.schedule[self.pos] in self.done:
            self.pos += 1
        if self.pos < len(self.schedule):
            nxt = self.schedule[self.pos]
            if nxt in self.lazy:
                # LIFECYCLE MODE: the thread is created only now - while the threads scheduled before it are in the middle of their
                # programs (open traces) - and it will be joined as soon as it has finished
                t = self.lazy.pop(nxt)
                self.live[nxt] = t
                t.start()
                return
            if nxt in self.waiting:
                self.running = nxt
                self.pos += 1
                self.trace.append(nxt)
                self.cv.notify_all()
        elif self.waiting:
            nxt = min(self.waiting)        # schedule exhausted: let the remaining threads finish, lowest first
            self.running = nxt
            self.trace.append(nxt)
            self.cv.notify_all()

    def start(self):
        with self.cv:
            self.started = True
            self._advance()

    def _wait_turn(self, me, label):
        # called with cv held
        if self.running == me:
            self.running = None
        self.waiting.add(me)
        self._advance()
        while self.running != me:
            if not self.cv.wait(self.timeout):
                raise SchedulerStuck("thread %s stuck at %s (pos %d of %s)" % (me, label, self.pos, self.schedule))
        self.waiting.discard(me)
        # lifecycle mode: threads that have finished are joined before anybody continues, so that the number of live threads really
        # drops while the others still have traces open
        for tid in [t_ for t_ in self.live if t_ in self.done]:
            th = self.live.pop(tid)
            if th is not threading.current_thread():
                th.join(self.timeout)
                self.deaths_joined += 1

    def point(self, me, label=None):
        with self.cv:
            if me in self.instep:
                self.ends.append(me)
                self.instep.discard(me)
            if self.mid.get(me):
                self.mid[me] = 0           # the step completed before the budget was used up: it ran out of turn
                self.ran_out_of_turn += 1
            if (self.micro_seed and self.running == me and self.pos < len(self.schedule) and self.schedule[self.pos] != me
                    and me in self.schedule[self.pos:]):
                # how far into its next step the thread runs before it is frozen: the range rotates with the seed, so that freeze points fall
                # into the first primitives of the forward trace (90), anywhere in a small differentiation (400) or deep in the backward
                # pass / an outer level of a nested one (1500 line events)
                m = zlib.crc32(("%d/%d/%s" % (self.micro_seed, self.pos, me)).encode()) % (90, 400, 1500)[self.micro_seed % 3]
                if m > 0:
                    self.mid[me] = m       # keep the baton, run into the next step, freeze after m line events
                    self.instep.add(me)
                    return
            self._wait_turn(me, label)
            self.instep.add(me)

    def micro(self, me):
        """one line event of autograd's own code in thread `me`"""
        if not self.mid.get(me):
            return
        with self.cv:
            self.mid[me] -= 1
            if self.mid[me] > 0:
                return
            self.frozen_mid_step += 1
            self._wait_turn(me, "mid-step")

    def finish(self, me):
        with self.cv:
            if me in self.instep:
                self.ends.append(me)
                self.instep.discard(me)
            self.mid[me] = 0
            self.done.add(me)
            self.waiting.discard(me)
            if self.running == me:
                self.running = None
            self._advance()


def run_threads(case, Ctx, run_thread):
    prog = case["prog"]
    n = len(prog["threads"])
    baton = Baton(case.get("schedule") or [])
    baton.micro_seed = int(case.get("micro") or 0)
    import autograd
    prefix = os.path.dirname(os.path.abspath(autograd.__file__)) + os.sep
    obs = [None] * n
    ids = [None] * n
    errs = []

    def tracer_for(me):
        def local(frame, event, arg):
            if event == "line":
                baton.micro(me)
            return local

        def glob(frame, event, arg):
            if frame.f_code.co_filename.startswith(prefix):
                baton.micro(me)
                return local
            return None
        return glob

    def body(i):
        ctx = Ctx(prog, case.get("variant", 0), sched=baton, name=i + 1)
        ctx.shared_ops = bool(case.get("shared_ops"))
        try:
            if baton.micro_seed:
                sys.settrace(tracer_for(i + 1))
            obs[i] = run_thread(ctx, prog["threads"][i])
        except SchedulerStuck as ex:
            errs.append(str(ex))
            obs[i] = {"k": "error", "type": "SchedulerStuck", "msg": str(ex)}
        finally:
            sys.settrace(None)
            ids[i] = [x if x is not None else -99 for x in ctx.ids]
            baton.finish(i + 1)
    if case.get("lifecycle"):
        # thread 1's program runs in THIS thread (until another one is born the process has one live thread); the others are started
        # when the schedule first names them and joined as soon as they are done
        ts = [threading.Thread(target=body, args=(i,), daemon=True) for i in range(1, n)]
        for i, t in enumerate(ts):
            baton.lazy[i + 2] = t
        baton.births = len(ts)
        baton.start_lifecycle = True
        with baton.cv:
            baton.started = True
        body(0)
        for t in ts:
            if t.ident is None:          # never scheduled: run it now so that its result exists
                with baton.cv:
                    for k_, v_ in list(baton.lazy.items()):
                        if v_ is t:
                            baton.lazy.pop(k_)
                t.start()
                with baton.cv:
                    baton._advance()
            t.join(120)
            if t.is_alive():
                raise SchedulerStuck("thread did not finish")
    else:
        ts = [threading.Thread(target=body, args=(i,), daemon=True) for i in range(n)]
        for t in ts:
            t.start()
        baton.start()
        for t in ts:
            t.join(120)
            if t.is_alive():
                raise SchedulerStuck("thread did not finish")
    if errs:
        raise SchedulerStuck("; ".join(errs))
    return obs, ids, baton
