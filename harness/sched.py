"""Strict baton scheduler: real threads, but exactly one runs at a time and control changes hands only at the
yield points (the start of every program instruction = one step of the abstract machine), in the order given by a
TLC-generated schedule.  A stuck schedule is a machinery failure (never a verdict)."""
import threading


class SchedulerStuck(Exception):
    pass


class Baton:
    def __init__(self, schedule, timeout=30.0):
        self.schedule = list(schedule)
        self.pos = 0
        self.cv = threading.Condition()
        self.running = None
        self.waiting = set()
        self.done = set()
        self.timeout = timeout
        self.started = False
        self.trace = []

    def _advance(self):
        # called with cv held, when nobody runs: hand the baton to the next scheduled thread that can take it
        if self.running is not None or not self.started:
            return
        while self.pos < len(self.schedule) and self.schedule[self.pos] in self.done:
            self.pos += 1
        if self.pos < len(self.schedule):
            nxt = self.schedule[self.pos]
            if nxt in self.waiting:
                self.running = nxt
                self.pos += 1
                self.trace.append(nxt)
                self.cv.notify_all()
        elif self.waiting:
            nxt = min(self.waiting)        # schedule exhausted: let the remaining threads finish, lowest first
            self.running = nxt
            self.trace.append(nxt)
            self.cv.notify_all()

    def start(self):
        with self.cv:
            self.started = True
            self._advance()

    def point(self, me, label=None):
        with self.cv:
            if self.running == me:
                self.running = None
            self.waiting.add(me)
            self._advance()
            while self.running != me:
                if not self.cv.wait(self.timeout):
                    raise SchedulerStuck("thread %s stuck at %s (pos %d of %s)" % (me, label, self.pos, self.schedule))
            self.waiting.discard(me)

    def finish(self, me):
        with self.cv:
            self.done.add(me)
            self.waiting.discard(me)
            if self.running == me:
                self.running = None
            self._advance()


def run_threads(case, Ctx, run_thread):
    prog = case["prog"]
    n = len(prog["threads"])
    baton = Baton(case.get("schedule") or [])
    obs = [None] * n
    ids = [None] * n
    errs = []

    def body(i):
        ctx = Ctx(prog, case.get("variant", 0), sched=baton, name=i + 1)
        try:
            obs[i] = run_thread(ctx, prog["threads"][i])
        except SchedulerStuck as ex:
            errs.append(str(ex))
            obs[i] = {"k": "error", "type": "SchedulerStuck", "msg": str(ex)}
        finally:
            ids[i] = [x if x is not None else -99 for x in ctx.ids]
            baton.finish(i + 1)
    ts = [threading.Thread(target=body, args=(i,), daemon=True) for i in range(n)]
    for t in ts:
        t.start()
    baton.start()
    for t in ts:
        t.join(120)
        if t.is_alive():
            raise SchedulerStuck("thread did not finish")
    if errs:
        raise SchedulerStuck("; ".join(errs))
    return obs, ids
