#!/bin/sh
# Diagnostic: line/branch coverage of /repo/autograd achieved by the spec-driven replays of the quick checks (coverage.py from /venv).
# usage: tools/impl_coverage.sh [check ids...]   -> out/impl-coverage/report.txt (missed lines per file)
cd /verif
d=/verif/out/impl-coverage; rm -rf $d; mkdir -p $d
ids=${*:-C01 C02 C03 C04 C05 C06 C07 C08 C09 C10 C11 C12 C13 C14 C15 C16 C17 C18 C19 C20}
for c in $ids; do VERIF_COVERAGE_DIR=$d ./check $c --tier quick > $d/$c.log 2>&1; echo "$c exit=$?"; done
cd $d && /venv/bin/python -m coverage combine --data-file=$d/.coverage $d >/dev/null 2>&1
/venv/bin/python -m coverage report --data-file=$d/.coverage -m --skip-empty > $d/report.txt 2>&1
tail -40 $d/report.txt
