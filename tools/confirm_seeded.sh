#!/bin/sh
# usage: confirm_seeded.sh <name> <dir with patch.diff demo.py meta.json>
# Confirms in a scratch worktree (outside /repo and /verif) that the patch applies, the repo's suite passes with it,
# and demo.py passes without / fails with the patch; then stores it under $root/seeded/<name>/.
set -u
name=$1; src=$2
root=$(cd "$(dirname "$0")/.." && pwd)
wt=$(mktemp -d /tmp/confirm-XXXXXX); rmdir $wt
git -C /repo worktree add -q --detach $wt HEAD || exit 2
cleanup() { git -C /repo worktree remove --force $wt; }
trap cleanup EXIT
cd $wt
# a change to the SciPy wrappers (names H-*) is demonstrated under the tooling interpreter: the repository's own has no SciPy
case "$name" in H-*) demopy=/opt/veriftools/pyvenv/bin/python;; *) demopy=/venv/bin/python;; esac
run() { PYTHONPATH=$wt PYTHONDONTWRITEBYTECODE=1 timeout 600 $demopy "$@"; }
run $src/demo.py > /tmp/confirm-clean.out 2>&1; rc_clean=$?
git apply $src/patch.diff || { echo "PATCH DOES NOT APPLY"; exit 1; }
run $src/demo.py > /tmp/confirm-mut.out 2>&1; rc_mut=$?
suite=$(PYTHONPATH=$wt PYTHONDONTWRITEBYTECODE=1 /venv/bin/python -m pytest -q -p no:cacheprovider --timeout=900 -n 8 -o addopts="" tests 2>&1 | tail -1)
echo "demo clean rc=$rc_clean ; demo mutated rc=$rc_mut ; suite: $suite"
case "$suite" in *"496 passed"*) ok_suite=1;; *) ok_suite=0;; esac
if [ $rc_clean -eq 0 ] && [ $rc_mut -ne 0 ] && [ $ok_suite -eq 1 ]; then
  mkdir -p $root/seeded/$name
  cp $src/patch.diff $src/demo.py $root/seeded/$name/
  /venv/bin/python - "$name" "$src" "$suite" "$root" <<'PY'
import json,sys
name,src,suite,root=sys.argv[1:5]
m=json.load(open(src+"/meta.json"))
m["confirmed"]={"by":"tools/confirm_seeded.sh in a scratch worktree of /repo HEAD","demo_on_clean_tree":"exit 0","demo_with_patch":"non-zero exit","suite_with_patch":suite.strip()}
json.dump(m,open(root+"/seeded/%s/meta.json"%name,"w"),indent=1)
PY
  echo "CONFIRMED -> $root/seeded/$name"
else
  echo "NOT CONFIRMED"; tail -5 /tmp/confirm-clean.out /tmp/confirm-mut.out; exit 1
fi
