#!/bin/sh
# usage: try_mutant.sh <seeded name> <check id>...   - runs quick checks against a scratch worktree with the seeded change applied
name=$1; shift
root=$(cd "$(dirname "$0")/.." && pwd)
wt=$(mktemp -d /tmp/try-XXXXXX); rmdir $wt
base=$(/venv/bin/python -c "import json,sys; print(json.load(open('$root/seeded/$name/meta.json')).get('base','HEAD'))")
git -C /repo worktree add -q --detach $wt $base || exit 2
trap "git -C /repo worktree remove --force $wt" EXIT
git -C $wt apply $root/seeded/$name/patch.diff || exit 2
for c in "$@"; do
  out=$(VERIF_REPO=$wt $root/check $c --tier ${TIER:-quick} 2>&1)
  echo "$name $c: $(echo "$out" | grep -c '^VIOLATION') violations; $(echo "$out" | grep -E '^check|further|MACHINERY' | tr '\n' ' ')"
  echo "$out" | grep -E '^VIOLATION|DRIFT' | head -3 | cut -c1-400
done
