#!/bin/sh
# usage: intake.sh <name>   - confirm a sub-agent's seeded change (/tmp/wt-out/<name>), store it, remove the agent's worktree, run the related quick checks
name=$1
root=$(cd "$(dirname "$0")/.." && pwd)
$root/tools/confirm_seeded.sh $name /tmp/wt-out/$name 2>&1 | tail -1
git -C /repo worktree remove --force /tmp/wt/$name 2>/dev/null
[ -d $root/seeded/$name ] || exit 1
rel=$(/venv/bin/python - "$name" "$root" <<'PY'
import sys, re
src = open(sys.argv[2] + '/tools/mutant_matrix.py').read()
ns = {}
exec(src[src.index('RELATED = {'):src.index('\n\n\ndef main')], ns)
import json
key = sys.argv[1][:3]
if key not in ns['RELATED']:
    key = json.load(open(sys.argv[2] + '/seeded/' + sys.argv[1] + '/meta.json'))['property'][:3]
print(' '.join(ns['RELATED'][key]))
PY
)
$root/tools/try_mutant.sh $name $rel 2>&1 | grep -v "^VIOLATION" | cut -c1-260
