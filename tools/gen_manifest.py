#!/usr/bin/env python3
"""Regenerates /verif/MANIFEST.json from the table below (single source of truth for what is claimed)."""
import json
import os

ROOT = os.path.dirname(os.path.dirname(os.path.abspath(__file__)))
TECH = "explicit TLA+ specification checked with TLC; TLC-generated cases replayed on the code; recorded traces/observations validated against the specification by TLC"
NOTE = ("TLC 1.8 and the TLA+ specs under /verif/spec are trusted; bounds as stated in the evidence file; harness primitives observe rule "
        "applications through the public extension API only; Tier-I (introspection) mismatches are reported as DRIFT, never as violations")
CLAIMS = {
    "C01": ("model_checking", "RuleSpace.tla enumerates the call configurations (family x primitive x call form x shapes x axes x keepdims x argnum x "
            "scalar form; 21 families incl. the SciPy wrappers autograd.scipy.special / .stats / .linalg / .signal); every configuration is called on the real code, the full reverse-mode matrix compared with the Jacobian of plain NumPy, and "
            "TLC judges every observation against Contract!RevExact. Numeric agreement is a ~5e-7 projection, not a proof of the formulas", "4 C01"),
    "C02": ("model_checking", "same configuration space; full forward-mode matrix and tangent structure judged by TLC against Contract!FwdExact", "4 C02"),
    "C04": ("model_checking", "same configuration space; oracle-free: reverse and forward matrices must agree to 1e-11 on the whole basis and both be "
            "linear, also through the linear functional sum o f (Contract!Adjoint), judged by TLC", "4 C04"),
    "C05": ("model_checking", "same configuration space; structure (shape, real/complex, dtype) of every VJP result equals the argument's, of every JVP "
            "result the output's (Contract!GradInArgSpace, no numerics), judged by TLC; Shape.tla's predicted shapes are cross-checked against NumPy", "4 C05"),
    "C06": ("model_checking", "same configuration space; primal under reverse, forward and nested differentiation identical to plain NumPy (value, shape, "
            "dtype), no tracer handed back, inputs intact, and the un-traced value equal to what numpy itself returns for the same call (Contract!Transparent) + AGM NoLeak invariant + every primal/auxiliary value handed back by a "
            "differential operator and the value of every container program (TraceOperators/TraceContainers!Transparent)", "4 C06"),
    "C09": ("model_checking", "configurations with complex operands or results; realified Jacobian of plain NumPy; R = conj(J_R^T conj g) and F = J_R v "
            "on the real basis {e_k, i e_k}, complex points in all four quadrants, judged by TLC", "4 C09"),
    "C03": ("model_checking", "RevImpl (toposort + backward_pass + add_outgrads) refines RevAbs over all DAGs <= 5 nodes (multi-edges, diamonds, dead "
            "branches, constants); every exported graph is run on the real code and its rule-application trace validated against RevAbs by TLC; the forward "
            "pass likewise (FwdImpl refines FwdAbs, JVP-rule applications validated by TraceFwd); one value with up to 1000 consumers (Fan.tla); second "
            "order on the same graphs; gathers with repeated entries (multi-edges inside one operation) over the index space", "4 C03"),
    "C07": ("model_checking", "autograd abstract machine (AGM) checked against a symbolic polynomial oracle for every mode sequence of order 2..4; "
            "every program replayed on the real code and judged by TLC; mix family (indexing + dense cotangents under 1-3 differentiations); per "
            "primitive configuration Contract!SecondOrder incl. LinearAtZero", "4 C07"),
    "C08": ("model_checking", "AGM over all nestings of depth 2/3 x mode assignments x closure patterns, ResultIsDen + level discipline; programs "
            "replayed on the real code, observations judged by TLC against the program's meaning; one nesting level through the built-in rules at a "
            "traced zero cotangent (Contract!LinearAtZero); the fixed_point primitive nested to depth 3 (TraceMisc!NestedExact)", "4 C08"),
    "C10": ("model_checking", "ownership protocol of add_outgrads model-checked (NoBadWrite, UserMemoryIntact, sessions of calls incl. abandoned ones); "
            "graphs x sessions replayed with frozen and snapshotted memory; traces validated against RevAbs; one VJP function of every built-in "
            "primitive configuration applied to the whole basis and again, writeable cotangents and cotangents shared by two applications (Contract!Reusable); autograd.misc optimizers (TraceMisc!Ownership)", "4 C10"),
    "C11": ("model_checking", "sparse/dense accumulation: every arrival order of sparse and dense contributions at a shared value (star graphs), "
            "SparseObject primitives and built-in x[idx]; traces validated against RevAbs; every index expression (incl. 0-d arrays) scatters "
            "exactly and never raises (Contract!C11), also combined with dense uses in every order and memory layout (mixorder); mix programs of the machine", "4 C11"),
    "C12": ("model_checking", "Containers.tla: trees, access operations resolved to leaves, gradients as summed weights, flatten laws model-checked; every "
            "(tree, program, output mode, whole-container use, leaf memory layout) replayed on autograd's container boxes and misc.flatten, judged by TLC; every way of "
            "reading a component of the library's own named-tuple results (Contract!C12, no raising)", "4 C12"),
    "C13": ("model_checking", "VSpaceAlg.tla: the algebra of autograd's vector spaces over structure trees; axioms model-checked; every enumerated "
            "(space, vectors, scalars) replayed on the real vspace for all dtypes/containers and judged by TLC (operations = algebra, freshness incl. add with a zero operand, accumulation into caller-built vectors, addend intact, closure incl. numpy.linalg named-tuple spaces, extended-precision inner product, == and != of spaces, memory layouts)", "4 C13"),
    "C14": ("model_checking", "AGM programs whose output is independent of the variable or depends on it only through a notrace primitive, every "
            "depth and mode; replayed and judged by TLC; derivatives declared zero on array arguments are exact zeros of the argument's shape", "4 C14"),
    "C15": ("exploration", "Dispatch.tla models the decision table of the primitive wrapper (NoSilentDrop); the whole exported namespace (autograd.numpy, "
            ".linalg, .fft, .random, ArrayBox attributes) is swept with call templates NumPy accepts, each positional float argument (and all of them at "
            "once, and with special values in the other arguments) is differentiated in both modes; TLC judges every recorded row (varies & zero => "
            "violation, gross disagreement => violation; the SciPy-compatible namespaces likewise) and 33 guard cases that must raise (incl. Python's conversion protocols); loud failures caught and "
            "retried at every nesting depth (AGM fault family) must leave exact derivatives", "4 C15"),
    "C16": ("model_checking", "Operators.tla: every differential operator defined as a contraction of one symbolic integer Jacobian/Hessian; operator "
            "identities model-checked; 29 operators (incl. operators of operators through secondary outputs) x shapes x argument layouts replayed on the real package, shape and entries compared exactly by TLC", "4 C16"),
    "C17": ("model_checking", "AGM with a user-defined product primitive and a rule table {rule, None, missing}: arities 1..4 x differentiated subsets x "
            "trace-level assignments x registration APIs; checkpoint == plain call for value and reverse-mode derivatives of order 1-2; replayed and judged by TLC; "
            "the same contract on array arguments of different shapes (RuleSpace!ExtendFamily)", "4 C17"),
    "C18": ("exploration", "Checker.tla: the recursion of check_grads over modes and order is model-checked (EveryModePathChecked) and bound to the code by "
            "probes on check_vjp/check_jvp (explicit and default modes, fresh and after a call that lacked a forward rule); the verdict table (correct rules "
            "accepted, planted defects incl. NaN/inf entries and defects in a later element of a container-valued output rejected) is sampled with 40/400 random projections "
            "per cell and judged by TLC against a binomial threshold: statistical evidence, not a decision", "4 C18"),
    "C19": ("model_checking", "AGM with faults at every instruction of the innermost function, in the backward pass and at trace exit, caught at every "
            "enclosing level, followed by canaries; replayed in one process per worker and judged by TLC; re-wrapping and other-tracer histories; the rule "
            "tables evaluated in two processes in opposite orders must agree bit for bit, also with every warning promoted to an error and a fault injected at the k-th operation inside every backward rule (TraceHistory.tla)", "4 C19"),
    "C20": ("model_checking", "AGM with 2-3 threads: all interleavings model-checked; TLC-exported schedules replayed with real threads under a strict "
            "baton scheduler, once switching at machine-step boundaries and once with threads frozen inside autograd's own code, with shared operator "
            "objects and with threads born / joined under open traces; per-thread results judged against the run-alone meaning", "4 C20"),
}


def main():
    props = [json.loads(l) for l in open(os.path.join(ROOT, "properties.jsonl"))]
    checks = []
    for pid in sorted(CLAIMS):
        lvl, text, ref = CLAIMS[pid]
        checks.append({
            "property_id": pid, "quick_cmd": "./check %s --tier quick" % pid, "thorough_cmd": "./check %s --tier thorough" % pid,
            "evidence_file": "/verif/evidence/%s.json" % pid, "replay_cmd_template": "./check %s --replay {path}" % pid,
            "engine": "tlc-model+tlc-trace+replay-harness",
            "level_claimed": {"category": lvl, "text": text, "design_ref": "DESIGN.md §" + ref},
            "level_note": NOTE, "technique": TECH})
    na = [{"property_id": p["id"], "reason": NA.get(p["id"], "check not built yet (planned, see DESIGN.md §4)")}
          for p in props if p["id"] not in CLAIMS]
    m = {"version": 1, "setup_cmd": "./setup.sh",
         "hooks": {"guard": "AUTOGRAD_VERIF_PROBE",
                   "enable": "no source hooks in /repo: harness processes observe through the public extension API and passive wrappers installed at import time when AUTOGRAD_VERIF_PROBE=1",
                   "baseline_off_cmd": "cd /repo && /venv/bin/python -m pytest -ra -q -p no:cacheprovider --timeout=900 --continue-on-collection-errors",
                   "source_commits": [], "add_only": True},
         "engines": [
             {"name": "tlc-model", "path": "/verif/spec", "serves_properties": sorted(CLAIMS), "kind_free_text": "TLC exhaustive model checking of the TLA+ specifications"},
             {"name": "tlc-trace", "path": "/verif/spec/trace", "serves_properties": sorted(CLAIMS), "kind_free_text": "TLC trace validation of recorded executions against the abstract specifications"},
             {"name": "replay-harness", "path": "/verif/harness", "serves_properties": sorted(CLAIMS), "kind_free_text": "Python harness replaying TLC-generated cases on /repo's working tree"}],
         "checks": checks, "not_applicable": na,
         "notes": "See DESIGN.md. Exit codes: 0 held / 1 VIOLATION / 2 machinery failure. known_findings.json lists recorded defects."}
    json.dump(m, open(os.path.join(ROOT, "MANIFEST.json"), "w"), indent=1)


NA = {}
if __name__ == "__main__":
    main()
