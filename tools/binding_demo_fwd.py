import sys, json, os
sys.path.insert(0, '/verif/harness')
import vlib
from rev_diag import diagnose_fwd
cases = [{"id": 1, "args": [[], [{"p": 1, "kd": "fresh"}], [{"p": 1, "kd": "alias"}, {"p": 2, "kd": "fresh"}]], "session": [{"g": 1, "fault": 0}], "api": 0, "builtin": False, "jac": False},
         {"id": 2, "args": [[], [{"p": 1, "kd": "fresh"}], [{"p": 1, "kd": "alias"}, {"p": 2, "kd": "fresh"}]], "session": [{"g": 1, "fault": 0}], "api": 1, "builtin": False, "jac": False}]
traces, files = vlib.parallel_replay("rev_replay.py", cases, nproc=1, tag="neg")
t = traces
print(t[0]["fevents"], t[0]["jvp"])
good = json.loads(json.dumps(t[0])); good["id"] = 1
bad1 = json.loads(json.dumps(t[0])); bad1["id"] = 2; bad1["fevents"][1]["g"] += 1            # corrupted tangent
bad2 = json.loads(json.dumps(t[0])); bad2["id"] = 3; bad2["fevents"] = bad2["fevents"][:-1]   # dropped application
bad3 = json.loads(json.dumps(t[0])); bad3["id"] = 4; bad3["fevents"] = [bad3["fevents"][2], bad3["fevents"][0], bad3["fevents"][1]] if len(bad3["fevents"]) == 3 else bad3["fevents"][::-1]  # out of order
bad4 = json.loads(json.dumps(t[0])); bad4["id"] = 5; bad4["fevents"].append(bad4["fevents"][0])  # applied twice
d = vlib.subdir("negfwd")
f = vlib.write_ndjson(os.path.join(d, "t.ndjson"), [good, bad1, bad2, bad3, bad4])
acc, *_ = vlib.parallel_validate("TraceFwd", [f], cfg="SPECIFICATION TSpec\n", njvm=1)
print("accepted by TLC:", sorted(acc))
for x in (good, bad1, bad2, bad3, bad4):
    print(x["id"], diagnose_fwd(x))
