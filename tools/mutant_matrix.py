#!/usr/bin/env python3
"""Runs the quick checks against every seeded change in /verif/seeded, each applied to a scratch worktree of /repo (never to /repo
itself), and writes seeded/MATRIX.json: which check reports a violation for which change.
usage: tools/mutant_matrix.py [mutant ...]"""
import json
import os
import re
import subprocess
import sys
import tempfile

ROOT = os.path.dirname(os.path.dirname(os.path.abspath(__file__)))
RELATED = {"C01": ["C01", "C05", "C04", "C10"], "C02": ["C02", "C05", "C04"], "C03": ["C03", "C10", "C19", "C08"], "C04": ["C04", "C01", "C11"],
           "C05": ["C05", "C02", "C01"], "C06": ["C06", "C08", "C19", "C12", "C20"], "C07": ["C07", "C08", "C14", "C16"], "C08": ["C08", "C19", "C07", "C04"],
           "C09": ["C09", "C01"], "C10": ["C10", "C03", "C17"], "C11": ["C11", "C10", "C03"], "C12": ["C12"], "C13": ["C13", "C11"],
           "C14": ["C14", "C08", "C05", "C17"], "C15": ["C15", "C17"], "C16": ["C16", "C08"], "C17": ["C17", "C10", "C05"], "C18": ["C18"],
           "C19": ["C19", "C08", "C10"], "C20": ["C20"], "X20": ["C20"]}


def main():
    """usage: mutant_matrix.py [--merge] [mutant ...]     per-mutant results go to out/matrix/<name>.json (safe to run several processes on
    disjoint mutant sets); --merge folds them into seeded/MATRIX.json"""
    argv = sys.argv[1:]
    part_dir = os.path.join(ROOT, "out", "matrix")
    os.makedirs(part_dir, exist_ok=True)
    out_path = os.path.join(ROOT, "seeded", "MATRIX.json")
    if argv and argv[0] == "--merge":
        matrix = json.load(open(out_path)) if os.path.exists(out_path) else {}
        for fn in sorted(os.listdir(part_dir)):
            matrix[fn[:-5]] = json.load(open(os.path.join(part_dir, fn)))
        json.dump(matrix, open(out_path, "w"), indent=1, sort_keys=True)
        for k in sorted(matrix):
            det = [p for p, v in matrix[k].items() if v["exit"] == 1]
            bad = [p for p, v in matrix[k].items() if v["exit"] not in (0, 1)]
            print(k, "detected by", det, ("EXIT2 " + str(bad)) if bad else "", "" if det else "   <-- NOT DETECTED")
        return
    names = argv or sorted(os.listdir(os.path.join(ROOT, "seeded")))
    names = [n for n in names if os.path.isdir(os.path.join(ROOT, "seeded", n))]
    for name in names:
        wt = tempfile.mkdtemp(prefix="mm-%s-" % name)
        os.rmdir(wt)
        meta = json.load(open(os.path.join(ROOT, "seeded", name, "meta.json")))
        # a change whose trigger was removed by a later fix: commit is applied to the commit it was confirmed against
        subprocess.check_call(["git", "-C", "/repo", "worktree", "add", "-q", "--detach", wt, meta.get("base", "HEAD")])
        try:
            subprocess.check_call(["git", "-C", wt, "apply", os.path.join(ROOT, "seeded", name, "patch.diff")])
            row = {}
            for pid in (RELATED.get(name[:3]) or RELATED[meta["property"][:3]]):
                env = dict(os.environ, VERIF_REPO=wt)
                p = subprocess.run([os.path.join(ROOT, "check"), pid, "--tier", "quick"], env=env, cwd=ROOT, stdout=subprocess.PIPE,
                                   stderr=subprocess.STDOUT, text=True)
                nv = len(re.findall(r"^VIOLATION", p.stdout, re.M))
                more = re.search(r"\.\.\. (\d+) further", p.stdout)
                row[pid] = {"exit": p.returncode, "violations": nv + (int(more.group(1)) if more else 0)}
                print(name, pid, row[pid], flush=True)
            json.dump(row, open(os.path.join(part_dir, name + ".json"), "w"), indent=1, sort_keys=True)
        finally:
            subprocess.call(["git", "-C", "/repo", "worktree", "remove", "--force", wt])


if __name__ == "__main__":
    main()
