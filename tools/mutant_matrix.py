#!/usr/bin/env python3
"""Runs the quick checks against every seeded change in /verif/seeded, each applied to a scratch worktree of /repo (never to /repo
itself), and writes seeded/MATRIX.json: which check reports a violation for which change.
usage: tools/mutant_matrix.py [mutant ...]"""
import json
import os
import re
import subprocess
import sys
import tempfile

ROOT = os.path.dirname(os.path.dirname(os.path.abspath(__file__)))
RELATED = {"C01": ["C01", "C05", "C04", "C10"], "C02": ["C02", "C05", "C04"], "C03": ["C03", "C11", "C10", "C19", "C08"], "C04": ["C04", "C01", "C11"],
           "C05": ["C05", "C02", "C01"], "C06": ["C06", "C08", "C19", "C12", "C20"], "C07": ["C07", "C08", "C14", "C16"], "C08": ["C08", "C19", "C07", "C04"],
           "C09": ["C09", "C01", "C02"], "C10": ["C10", "C03", "C17"], "C11": ["C11", "C10", "C03"], "C12": ["C12"], "C13": ["C13", "C11"],
           "C14": ["C14", "C08", "C05", "C17"], "C15": ["C15", "C19", "C17"], "C16": ["C16", "C08"], "C17": ["C17", "C10", "C05"], "C18": ["C18"],
           "C19": ["C19", "C08", "C10"], "C20": ["C20"], "X20": ["C20"], "H-s": ["C01", "C05", "C04"]}


def main():
    """usage: mutant_matrix.py [--merge] [mutant ...]     per-mutant results go to out/matrix/<name>.json (safe to run several processes on
    disjoint mutant sets); --merge folds them into seeded/MATRIX.json"""
    argv = sys.argv[1:]
    part_dir = os.path.join(ROOT, "out", "matrix")
    os.makedirs(part_dir, exist_ok=True)
    out_path = os.path.join(ROOT, "seeded", "MATRIX.json")
    if argv and argv[0] == "--merge":
        matrix = json.load(open(out_path)) if os.path.exists(out_path) else {}
        for fn in sorted(os.listdir(part_dir)):
            matrix[fn[:-5]] = json.load(open(os.path.join(part_dir, fn)))
        json.dump(matrix, open(out_path, "w"), indent=1, sort_keys=True)
        for k in sorted(matrix):
            det = [p for p, v in matrix[k].items() if v["exit"] == 1]
            bad = [p for p, v in matrix[k].items() if v["exit"] not in (0, 1)]
            print(k, "detected by", det, ("EXIT2 " + str(bad)) if bad else "", "" if det else "   <-- NOT DETECTED")
        return
    primary = None
    if argv and argv[0] == "--primary":
        # run, per change, the checks DESIGN.md section 9 names in its "caught by" column, in that order, and stop at the first that reports
        # a violation: confirms with the CURRENT machinery that every seeded change is still detected, at a fraction of the full matrix
        argv = argv[1:]
        primary = {}
        for line in open(os.path.join(ROOT, "DESIGN.md")):
            if not re.match(r"\| (C\d\d-[a-g]|F-\w+|X20)", line):
                continue
            cols = [c.strip() for c in line.strip().strip("|").split("|")]
            ids = []
            for m in re.findall(r"C\d\d", cols[-1]):
                if m not in ids:
                    ids.append(m)
            for nm in re.findall(r"C\d\d-[a-g]|F-\w+|X20-\w+", cols[0]):
                primary[nm] = ids
    names = argv or sorted(os.listdir(os.path.join(ROOT, "seeded")))
    names = [n for n in names if os.path.isdir(os.path.join(ROOT, "seeded", n))]
    for name in names:
        wt = tempfile.mkdtemp(prefix="mm-%s-" % name)
        os.rmdir(wt)
        meta = json.load(open(os.path.join(ROOT, "seeded", name, "meta.json")))
        # a change whose trigger was removed by a later fix: commit is applied to the commit it was confirmed against
        subprocess.check_call(["git", "-C", "/repo", "worktree", "add", "-q", "--detach", wt, meta.get("base", "HEAD")])
        try:
            subprocess.check_call(["git", "-C", wt, "apply", os.path.join(ROOT, "seeded", name, "patch.diff")])
            row = {}
            plan = RELATED.get(name[:3]) or RELATED[meta["property"][:3]]
            if primary is not None and primary.get(name) and "not detected" not in str(primary.get(name)):
                plan = primary[name] + [q for q in plan if q not in primary[name]]
            for pid in plan:
                env = dict(os.environ, VERIF_REPO=wt)
                p = subprocess.run([os.path.join(ROOT, "check"), pid, "--tier", "quick"], env=env, cwd=ROOT, stdout=subprocess.PIPE,
                                   stderr=subprocess.STDOUT, text=True)
                nv = len(re.findall(r"^VIOLATION", p.stdout, re.M))
                more = re.search(r"\.\.\. (\d+) further", p.stdout)
                row[pid] = {"exit": p.returncode, "violations": nv + (int(more.group(1)) if more else 0)}
                print(name, pid, row[pid], flush=True)
                if primary is not None and p.returncode == 1:
                    break
            json.dump(row, open(os.path.join(part_dir, name + ".json"), "w"), indent=1, sort_keys=True)
        finally:
            subprocess.call(["git", "-C", "/repo", "worktree", "remove", "--force", wt])


if __name__ == "__main__":
    main()
