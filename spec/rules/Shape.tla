-------------------------------- MODULE Shape --------------------------------
(* NumPy's shape calculus, as far as the rule-table properties need it: which call configurations NumPy accepts and
   which structure the result has.  Shapes are sequences of positive integers; <<>> is a 0-d array / scalar. *)
EXTENDS Integers, Sequences, FiniteSets

Dims == {1, 2, 3}
ShapesOfRank(r) == [1..r -> Dims]
Shapes(maxr) == UNION {ShapesOfRank(r) : r \in 0..maxr}

Size(s) == LET F[i \in 0..Len(s)] == IF i = 0 THEN 1 ELSE F[i-1] * s[i] IN F[Len(s)]
MaxI(a, b) == IF a >= b THEN a ELSE b

\* ---- broadcasting (right-aligned)
DimAt(s, k, n) == \* k-th dimension of s when padded on the left to rank n
  LET off == n - Len(s) IN IF k <= off THEN 1 ELSE s[k - off]
BroadcastOK(a, b) == LET n == MaxI(Len(a), Len(b)) IN
  \A k \in 1..n : DimAt(a, k, n) = DimAt(b, k, n) \/ DimAt(a, k, n) = 1 \/ DimAt(b, k, n) = 1
Broadcast(a, b) == LET n == MaxI(Len(a), Len(b)) IN
  [k \in 1..n |-> MaxI(DimAt(a, k, n), DimAt(b, k, n))]
\* how an operand is broadcast: "none" (same shape), "rank" (leading axes added), "stretch" (size-1 axes stretched), "both"
BcastKind(a, out) ==
  LET added == Len(out) > Len(a)
      stretched == \E k \in 1..Len(a) : a[k] = 1 /\ out[k + Len(out) - Len(a)] > 1
  IN IF added /\ stretched THEN "both" ELSE IF added THEN "rank" ELSE IF stretched THEN "stretch" ELSE "none"

\* ---- axes.  An axis argument is [k |-> "none"] | [k |-> "int", a |-> i] | [k |-> "tuple", t |-> <<i, j, ..>>]
NormAxis(a, nd) == IF a < 0 THEN a + nd ELSE a          \* 0-based
ValidAxis(a, nd) == a >= -nd /\ a < nd
AxisInts(nd) == (-nd)..(nd - 1)
AxisTuples(nd, len) == {t \in [1..len -> AxisInts(nd)] :
                          \A i, j \in 1..len : i # j => NormAxis(t[i], nd) # NormAxis(t[j], nd)}
AxisChoices(nd) ==
  {[k |-> "none"]} \cup {[k |-> "int", a |-> a] : a \in AxisInts(nd)}
  \cup {[k |-> "tuple", t |-> t] : t \in AxisTuples(nd, 1) \cup (IF nd >= 2 THEN AxisTuples(nd, 2) ELSE {})
                                         \cup (IF nd >= 3 THEN {t \in AxisTuples(nd, 3) : t[1] = 0 \/ t[1] = -1} ELSE {})}
AxisSet(ax, nd) == CASE ax.k = "none" -> 0..(nd - 1)
                     [] ax.k = "int" -> {NormAxis(ax.a, nd)}
                     [] ax.k = "tuple" -> {NormAxis(ax.t[i], nd) : i \in DOMAIN ax.t}
AxisSign(ax) == CASE ax.k = "none" -> "none"
                  [] ax.k = "int" -> (IF ax.a < 0 THEN "neg" ELSE "pos")
                  [] ax.k = "tuple" -> (IF \A i \in DOMAIN ax.t : ax.t[i] < 0 THEN "neg"
                                        ELSE IF \A i \in DOMAIN ax.t : ax.t[i] >= 0 THEN "pos" ELSE "mixed")

\* ---- reductions
RECURSIVE KeepSeq(_, _, _, _)
KeepSeq(s, red, keepdims, i) ==
  IF i > Len(s) THEN <<>>
  ELSE IF (i - 1) \in red THEN (IF keepdims THEN <<1>> ELSE <<>>) \o KeepSeq(s, red, keepdims, i + 1)
  ELSE <<s[i]>> \o KeepSeq(s, red, keepdims, i + 1)
ReduceShape(s, ax, keepdims) == KeepSeq(s, AxisSet(ax, Len(s)), keepdims, 1)

\* ---- permutations
Perms(n) == {p \in [1..n -> 0..(n-1)] : \A i, j \in 1..n : i # j => p[i] # p[j]}
TransposeShape(s, p) == [i \in 1..Len(s) |-> s[p[i] + 1]]
=============================================================================
