CONSTANTS MaxR = 3 Export = FALSE
SPECIFICATION Spec
INVARIANT Lemmas
