------------------------------ MODULE RuleSpace ------------------------------
(* The space of CALL CONFIGURATIONS the rule-table properties (C01 C02 C04 C05 C06 C09 C11) quantify over:
   "one state = one way of calling one exported function".  TLC enumerates a family completely and exports each
   configuration (with its canonical facets and, where Shape.tla defines it, the predicted output shape) as one JSON
   line; the harness turns every line into a real call on /repo and records an observation that Contract.tla judges.

   Whether NumPy accepts a configuration is decided by the validity predicates below where they are cheap to state
   (broadcast compatibility, axis validity, distinct axes) and by NumPy itself otherwise (the harness skips what plain
   NumPy rejects and counts it).

   Generic parameter fields (unused ones are 0 / <<>> / "-"), so that every family is a homogeneous set of records:
     prim   exported name            form   "func" | "method" | "op" | "rop"
     s, s2, s3   argument shapes     argnum differentiated positional argument
     ax     axis argument record (Shape.tla)        kd   keepdims
     ia, ib integer parameters       tp     tuple parameter      st   string parameter
     kind   real/complex mix of (differentiated arg, other arg): "rr" "cr" "rc" "cc"
     scal   how a rank-0 operand is passed: "array" (n/a) | "pyfloat" | "zerod" *)
EXTENDS Shape, TLC, Json

CONSTANTS Family, MaxRank, Kinds

Cfg(prim, form, s, s2, s3, argnum, ax, kd, ia, ib, tp, st, kind, scal, oshape) ==
  [prim |-> prim, form |-> form, s |-> s, s2 |-> s2, s3 |-> s3, argnum |-> argnum, ax |-> ax, kd |-> kd,
   ia |-> ia, ib |-> ib, tp |-> tp, st |-> st, kind |-> kind, scal |-> scal, oshape |-> oshape]
NoAx == [k |-> "none"]
NA == <<-1>>        \* "output shape not predicted by the spec"
ScalForms(s) == IF s = <<>> THEN {"pyfloat", "zerod"} ELSE {"array"}

\* ---------------------------------------------------------------- binary broadcasting ufuncs and operators
BinFuncs == {"add", "subtract", "multiply", "divide", "true_divide", "power", "mod", "remainder", "maximum", "minimum",
             "fmax", "fmin", "logaddexp", "logaddexp2", "arctan2", "hypot"}
BinOps == {"add", "subtract", "multiply", "divide", "power", "mod"}           \* + - * / ** %
BinComplex == {"add", "subtract", "multiply", "divide", "true_divide", "power"}
BinShapes == Shapes(2) \cup (IF MaxRank >= 3 THEN {<<2, 1, 3>>, <<1, 2, 3>>, <<2, 3, 1>>, <<3, 2, 3>>} ELSE {})
                       \cup (IF MaxRank >= 4 THEN {<<2, 1, 3, 1>>, <<1, 2, 1, 3>>} ELSE {})
BinPairs(z) == {pr \in BinShapes \X BinShapes : BroadcastOK(pr[1], pr[2])}
BinaryFamily(z) ==
  {c \in {Cfg(p, f, pr[1], pr[2], <<>>, n, NoAx, FALSE, 0, 0, <<>>, "-", k, sc, Broadcast(pr[1], pr[2])) :
            p \in BinFuncs, f \in {"func", "op", "rop"}, pr \in BinPairs(0), n \in {0, 1}, k \in Kinds,
            sc \in {"array", "pyfloat", "zerod"}} :
     /\ (c.form # "func" => c.prim \in BinOps)
     /\ (c.kind # "rr" => c.prim \in BinComplex)
     \* scal describes how a rank-0 OTHER operand is passed (Python float or 0-d array)
     /\ LET other == IF c.argnum = 0 THEN c.s2 ELSE c.s IN
        IF other = <<>> THEN c.scal \in {"pyfloat", "zerod"} ELSE c.scal = "array"}

\* numpy.where(cond, a, b): shapes of cond (s3), a (s), b (s2); argnum 1 or 2
WhereFamily(z) ==
  {Cfg("where", "func", t[1], t[2], t[3], n, NoAx, FALSE, 0, 0, <<>>, "-", "rr", "array", Broadcast(Broadcast(t[1], t[2]), t[3])) :
     n \in {1, 2}, t \in {tt \in Shapes(2) \X Shapes(2) \X Shapes(2) :
                             BroadcastOK(tt[1], tt[2]) /\ BroadcastOK(Broadcast(tt[1], tt[2]), tt[3])}}

\* ---------------------------------------------------------------- reductions
RedFuncs == {"sum", "mean", "prod", "var", "std", "max", "min", "amax", "amin"}
RedMethods == {"sum", "mean", "prod", "var", "std", "max", "min"}
RedComplex == {"sum", "mean", "prod", "var", "std"}
NReduced(s, ax) == Size(s) \div Size(ReduceShape(s, ax, FALSE))
RedShapes == Shapes(2) \cup (IF MaxRank >= 3 THEN {<<2, 1, 3>>, <<3, 2, 2>>, <<1, 2, 3>>, <<2, 3, 1>>} ELSE {})
                       \cup (IF MaxRank >= 4 THEN {<<2, 1, 3, 2>>} ELSE {})
\* valid (function, call form, ddof, kind) combinations
RedCombos == {q \in RedFuncs \X {"func", "method"} \X {0, 1} \X (Kinds \cap {"rr", "cc"}) :
                /\ (q[2] = "method" => q[1] \in RedMethods)
                /\ (q[3] = 1 => q[1] \in {"var", "std"})
                /\ (q[4] = "cc" => q[1] \in RedComplex)}
ReduceFamily(z) ==
  UNION {{Cfg(q[1], q[2], s, <<>>, <<>>, 0, ax, kd, q[3], 0, <<>>, "-", q[4], "array", ReduceShape(s, ax, kd)) :
            q \in {qq \in RedCombos : qq[2] = "method" => s # <<>>},
            \* var/std with N - ddof <= 0 is not a regular point
            ax \in {a \in AxisChoices(Len(s)) : NReduced(s, a) >= 2}, kd \in BOOLEAN} : s \in RedShapes}
  \cup UNION {{Cfg(q[1], q[2], s, <<>>, <<>>, 0, ax, kd, q[3], 0, <<>>, "-", q[4], "array", ReduceShape(s, ax, kd)) :
            q \in {qq \in RedCombos : (qq[2] = "method" => s # <<>>) /\ qq[1] \notin {"var", "std"}},
            ax \in {a \in AxisChoices(Len(s)) : NReduced(s, a) < 2}, kd \in BOOLEAN} : s \in RedShapes}
CumFamily(z) ==
  UNION {{Cfg("cumsum", "func", s, <<>>, <<>>, 0, ax, FALSE, 0, 0, <<>>, "-", "rr", "array", NA) :
            ax \in {a \in AxisChoices(Len(s)) : a.k # "tuple"}} : s \in RedShapes}
\* ---------------------------------------------------------------- elementwise unary
UnaryFuncs == {"negative", "abs", "absolute", "fabs", "exp", "exp2", "expm1", "log", "log2", "log10", "log1p", "sin", "cos", "tan",
               "arcsin", "arccos", "arctan", "sinh", "cosh", "tanh", "arcsinh", "arccosh", "arctanh", "sqrt", "square", "reciprocal",
               "sinc", "sign", "deg2rad", "rad2deg", "degrees", "radians", "real", "imag", "conj", "conjugate", "angle",
               "real_if_close", "nan_to_num", "floor", "ceil", "rint", "trunc"}
UnaryComplex == {"negative", "abs", "absolute", "exp", "log", "sin", "cos", "tan", "sinh", "cosh", "tanh", "sqrt", "square",
                 "reciprocal", "real", "imag", "conj", "conjugate", "angle", "real_if_close"}
UnaryFamily(z) ==
  {c \in {Cfg(p, f, s, <<>>, <<>>, 0, NoAx, FALSE, 0, 0, <<>>, "-", k, sc, s) :
            p \in UnaryFuncs, f \in {"func", "op", "method"}, s \in {<<>>, <<3>>, <<2, 3>>, <<1, 2>>}, k \in {"rr", "cc"} \cap Kinds,
            sc \in {"array", "pyfloat", "zerod"}} :
     /\ (c.form = "op" => c.prim \in {"negative", "abs"})
     /\ (c.form = "method" => c.prim \in {"conj", "conjugate"} /\ c.s # <<>>)
     /\ (c.kind = "cc" => c.prim \in UnaryComplex)
     /\ IF c.s = <<>> THEN c.scal \in {"pyfloat", "zerod"} ELSE c.scal = "array"}


\* ---------------------------------------------------------------- rearrangements (one argument, shape/axis/index parameters)
R1(prim, form, s, ax, ia, ib, tp, st) == Cfg(prim, form, s, <<>>, <<>>, 0, ax, FALSE, ia, ib, tp, st, "rr", "array", NA)
AxInt(a) == [k |-> "int", a |-> a]
RShapes == {<<>>, <<3>>, <<1>>, <<2, 3>>, <<3, 1>>, <<1, 3>>} \cup (IF MaxRank >= 3 THEN {<<2, 3, 1>>, <<3, 2, 2>>, <<2, 1, 3>>} ELSE {})
RShapes1 == RShapes \ {<<>>}
SignVariants(p, n) == {[i \in 1..n |-> p[i]], [i \in 1..n |-> p[i] - n], [i \in 1..n |-> IF i % 2 = 1 THEN p[i] - n ELSE p[i]],
                       [i \in 1..n |-> IF i % 2 = 0 THEN p[i] - n ELSE p[i]]}
SignName(p) == IF \A i \in DOMAIN p : p[i] >= 0 THEN "pos" ELSE IF \A i \in DOMAIN p : p[i] < 0 THEN "neg" ELSE "mixed"
ReshapeTargets(n) == {<<n>>, <<-1>>, <<1, n>>, <<n, 1>>, <<-1, 1>>} \cup (IF n = 6 THEN {<<3, 2>>, <<2, -1>>, <<3, -1, 2>>} ELSE {})
                     \cup (IF n = 12 THEN {<<2, 2, 3>>, <<4, -1>>, <<3, 4>>} ELSE {})
RearrFamily(z) ==
  UNION {
    \* transposition family
    {R1("transpose", f, s, NoAx, 0, 0, <<>>, "none") : f \in {"func", "method", "T"}}
    \cup {R1("transpose", f, s, NoAx, 0, 0, q, SignName(q)) : f \in {"func", "method", "method_tuple"}, q \in UNION {SignVariants(p, Len(s)) : p \in Perms(Len(s))}}
    \cup {R1(p, "func", s, NoAx, a, b, <<>>, "-") : p \in {"swapaxes", "moveaxis"}, a \in AxisInts(Len(s)), b \in AxisInts(Len(s))}
    \cup {R1("rollaxis", "func", s, NoAx, a, b, <<>>, "-") : a \in AxisInts(Len(s)), b \in (-Len(s))..Len(s)}
    \cup {R1("expand_dims", "func", s, NoAx, a, 0, <<>>, "-") : a \in (-Len(s) - 1)..Len(s)}
    \cup {R1("squeeze", f, s, NoAx, 0, 0, <<>>, "-") : f \in {"func", "method"}}
    \cup {R1("squeeze", "func", s, AxInt(a), 0, 0, <<>>, "-") : a \in {b \in AxisInts(Len(s)) : s[NormAxis(b, Len(s)) + 1] = 1}}
    \cup {R1("reshape", f, s, NoAx, 0, 0, t, o) : f \in {"func", "method", "method_tuple"}, t \in ReshapeTargets(Size(s)), o \in {"C", "F"}}
    \cup {R1("ravel", f, s, NoAx, 0, 0, <<>>, o) : f \in {"func", "method"}, o \in {"C", "F"}}
    \cup {R1("flatten", "method", s, NoAx, 0, 0, <<>>, "-")}
    \* repetition
    \cup {R1("repeat", "func", s, ax, r, 0, <<>>, "-") : r \in 1..3, ax \in {NoAx} \cup {AxInt(a) : a \in AxisInts(Len(s))}}
    \cup {R1("tile", "func", s, NoAx, 0, 0, t, "-") : t \in {<<2>>, <<1, 2>>, <<2, 1>>, <<2, 2>>, <<1, 1, 2>>, <<2, 1, 1, 1>>}}
    \cup {R1("tile", "func", s, NoAx, 2, 0, <<>>, "int")}
    \cup {R1("broadcast_to", "func", s, NoAx, 0, 0, t, "-") : t \in {tt \in {<<2, 3>>, <<2, 2, 3>>, <<3>>, <<1, 3>>, <<2, 1, 3>>, <<3, 3>>} : BroadcastOK(s, tt) /\ Broadcast(s, tt) = tt}}
    \* shifts, flips, triangles, diagonals
    \cup {R1("roll", "func", s, ax, sh, 0, <<>>, "-") : sh \in {1, -1, 2}, ax \in {NoAx} \cup {AxInt(a) : a \in AxisInts(Len(s))}}
    \cup {R1(p, "func", s, NoAx, 0, 0, <<>>, "-") : p \in {"flipud", "fliplr", "atleast_1d", "atleast_2d", "atleast_3d", "make_diagonal", "sort0", "msort"}}
    \cup {R1("flip", "func", s, ax, 0, 0, <<>>, "-") : ax \in {NoAx} \cup {AxInt(a) : a \in AxisInts(Len(s))}}
    \cup {R1("rot90", "func", s, NoAx, k, 0, <<>>, "-") : k \in {-1, 0, 1, 2, 3}}
    \cup {R1(p, "func", s, NoAx, k, 0, <<>>, "-") : p \in {"triu", "tril", "diag", "diagflat"}, k \in {-1, 0, 1}}
    \cup {R1(p, f, s, NoAx, k, 0, <<>>, "-") : p \in {"trace", "diagonal"}, f \in {"func", "method"}, k \in {-1, 0, 1}}
    \cup {R1(p, "func", s, NoAx, k, 0, t, "axes") : p \in {"trace", "diagonal"}, k \in {0, 1},
                                                   t \in {tt \in AxisTuples(Len(s), 2) : TRUE}}
    \* differences, padding, splitting, sorting, clipping
    \cup {R1("diff", "func", s, AxInt(a), n, 0, <<>>, "-") : n \in {1, 2}, a \in AxisInts(Len(s))}
    \cup {R1("gradient", "func", s, NoAx, 0, 0, <<>>, "-")}
    \cup {R1("gradient", "func", s, AxInt(a), 0, 0, <<>>, "axis") : a \in AxisInts(Len(s))}
    \cup {R1("pad", "func", s, NoAx, w, 0, <<>>, "int") : w \in {1, 2}}
    \cup {R1("pad", "func", s, NoAx, 0, 0, t, "pair") : t \in {<<1, 2>>, <<0, 1>>}}
    \cup {R1("pad", "func", s, NoAx, 0, 0, t, "pairs") : t \in {<<1, 0, 0, 1, 2, 0>>, <<0, 1, 2, 0, 1, 1>>}}
    \cup {R1(p, "func", s, AxInt(a), sec, pc, <<>>, "-") : p \in {"split", "array_split"}, a \in AxisInts(Len(s)), sec \in {1, 2, 3}, pc \in {0, 1}}
    \cup {R1("array_split", "func", s, AxInt(a), 0, pc, t, "indices") : a \in AxisInts(Len(s)), t \in {<<1>>, <<1, 2>>}, pc \in {0, 1}}
    \cup {R1(p, "func", s, NoAx, sec, pc, <<>>, "-") : p \in {"hsplit", "vsplit", "dsplit"}, sec \in {1, 2, 3}, pc \in {0, 1}}
    \cup {R1("sort", f, s, ax, 0, 0, <<>>, "-") : f \in {"func"}, ax \in {NoAx} \cup {AxInt(a) : a \in AxisInts(Len(s))}}
    \cup {R1("sort", "func", s, NoAx, 0, 0, <<>>, "default")}
    \cup {R1("partition", "func", s, NoAx, k, 0, <<>>, "default") : k \in {0, 1}}
    \cup {R1("clip", f, s, NoAx, 0, 0, <<>>, "-") : f \in {"func", "method"}}
    \cup {R1("astype", "method", s, NoAx, 0, 0, <<>>, t) : t \in {"float64", "float32"}}
    \cup {R1(p, "func", s, ax, 0, 0, <<>>, "-") : p \in {"fftshift", "ifftshift"}, ax \in {NoAx} \cup {AxInt(a) : a \in AxisInts(Len(s))}}
    \cup {R1("full", "func", s, NoAx, 0, 0, t, "-") : t \in {<<2, 3>>, <<3>>}}
    : s \in RShapes}
  \cup {Cfg("linspace", "func", <<>>, <<>>, <<>>, n, NoAx, FALSE, k, 0, <<>>, "-", "rr", "array", NA) : n \in {0, 1}, k \in {1, 4, 5}}

Space == CASE Family = "binary" -> BinaryFamily(0)
           [] Family = "where" -> WhereFamily(0)
           [] Family = "reduce" -> ReduceFamily(0)
           [] Family = "cum" -> CumFamily(0)
           [] Family = "unary" -> UnaryFamily(0)
           [] Family = "rearr" -> RearrFamily(0)

VARIABLES cfg, emitted
Init == cfg \in Space /\ emitted = FALSE
Next == ~emitted /\ emitted' = TRUE /\ UNCHANGED cfg /\ PrintT(ToJson(cfg))
Spec == Init /\ [][Next]_<<cfg, emitted>>
=============================================================================
