------------------------------ MODULE RuleSpace ------------------------------
(* The space of CALL CONFIGURATIONS the rule-table properties (C01 C02 C04 C05 C06 C09 C11) quantify over:
   "one state = one way of calling one exported function".  TLC enumerates a family completely and exports each
   configuration (with its canonical facets and, where Shape.tla defines it, the predicted output shape) as one JSON
   line; the harness turns every line into a real call on /repo and records an observation that Contract.tla judges.

   Whether NumPy accepts a configuration is decided by the validity predicates below where they are cheap to state
   (broadcast compatibility, axis validity, distinct axes) and by NumPy itself otherwise (the harness skips what plain
   NumPy rejects and counts it).

   Generic parameter fields (unused ones are 0 / <<>> / "-"), so that every family is a homogeneous set of records:
     prim   exported name            form   "func" | "method" | "op" | "rop"
     s, s2, s3   argument shapes     argnum differentiated positional argument
     ax     axis argument record (Shape.tla)        kd   keepdims
     ia, ib integer parameters       tp     tuple parameter      st   string parameter
     kind   real/complex mix of (differentiated arg, other arg): "rr" "cr" "rc" "cc"
     scal   how a rank-0 operand is passed: "array" (n/a) | "pyfloat" | "zerod" *)
EXTENDS Shape, TLC, Json

CONSTANTS Family, MaxRank, Kinds

Cfg(prim, form, s, s2, s3, argnum, ax, kd, ia, ib, tp, st, kind, scal, oshape) ==
  [prim |-> prim, form |-> form, s |-> s, s2 |-> s2, s3 |-> s3, argnum |-> argnum, ax |-> ax, kd |-> kd,
   ia |-> ia, ib |-> ib, tp |-> tp, st |-> st, kind |-> kind, scal |-> scal, oshape |-> oshape]
NoAx == [k |-> "none"]
NA == <<-1>>        \* "output shape not predicted by the spec"
ScalForms(s) == IF s = <<>> THEN {"pyfloat", "zerod"} ELSE {"array"}

\* ---------------------------------------------------------------- binary broadcasting ufuncs and operators
BinFuncs == {"add", "subtract", "multiply", "divide", "true_divide", "power", "mod", "remainder", "maximum", "minimum",
             "fmax", "fmin", "logaddexp", "logaddexp2", "arctan2", "hypot"}
BinOps == {"add", "subtract", "multiply", "divide", "power", "mod"}           \* + - * / ** %
BinComplex == {"add", "subtract", "multiply", "divide", "true_divide", "power"}
BinShapes == Shapes(2) \cup (IF MaxRank >= 3 THEN {<<2, 1, 3>>, <<1, 2, 3>>, <<2, 3, 1>>, <<3, 2, 3>>} ELSE {})
                       \cup (IF MaxRank >= 4 THEN {<<2, 1, 3, 1>>, <<1, 2, 1, 3>>} ELSE {})
BinPairs(z) == {pr \in BinShapes \X BinShapes : BroadcastOK(pr[1], pr[2])}
BinaryFamily(z) ==
  \* st: the quadrant of the complex plane the complex operands lie in (the generic points are rotated by i, -1, -i): rules with a branch
  \* cut (the logarithm in d/dy x**y, a division by the base) are identities in the right half-plane that fail in the left one
  {c \in {Cfg(p, f, pr[1], pr[2], <<>>, n, NoAx, FALSE, 0, 0, <<>>, q, k, sc, Broadcast(pr[1], pr[2])) :
            p \in BinFuncs, f \in {"func", "op", "rop"}, pr \in BinPairs(0), n \in {0, 1}, k \in Kinds,
            sc \in {"array", "pyfloat", "zerod"}, q \in {"-", "q2", "q3", "q4"}} :
     /\ (c.st # "-" => c.kind # "rr" /\ c.prim \in {"power", "divide", "multiply"} /\ Len(c.s) + Len(c.s2) <= 3)
     /\ (c.form # "func" => c.prim \in BinOps)
     /\ (c.kind # "rr" => c.prim \in BinComplex)
     \* scal describes how a rank-0 OTHER operand is passed (Python float or 0-d array)
     /\ LET other == IF c.argnum = 0 THEN c.s2 ELSE c.s IN
        IF other = <<>> THEN c.scal \in {"pyfloat", "zerod"} ELSE c.scal = "array"}

\* numpy.where(cond, a, b): shapes of cond (s3), a (s), b (s2); argnum 1 or 2
WhereFamily(z) ==
  {Cfg("where", "func", t[1], t[2], t[3], n, NoAx, FALSE, 0, 0, <<>>, "-", "rr", "array", Broadcast(Broadcast(t[1], t[2]), t[3])) :
     \* n = 0: the *condition* is the differentiated (float) argument - its rule is declared None, the derivative is an exact zero of ITS shape
     n \in {0, 1, 2}, t \in {tt \in Shapes(2) \X Shapes(2) \X Shapes(2) :
                             BroadcastOK(tt[1], tt[2]) /\ BroadcastOK(Broadcast(tt[1], tt[2]), tt[3])}}

\* ---------------------------------------------------------------- reductions
RedFuncs == {"sum", "mean", "prod", "var", "std", "max", "min", "amax", "amin"}
RedMethods == {"sum", "mean", "prod", "var", "std", "max", "min"}
RedComplex == {"sum", "mean", "prod", "var", "std"}
NReduced(s, ax) == Size(s) \div Size(ReduceShape(s, ax, FALSE))
RedShapes == Shapes(2) \cup (IF MaxRank >= 3 THEN {<<2, 1, 3>>, <<3, 2, 2>>, <<1, 2, 3>>, <<2, 3, 1>>} ELSE {})
                       \cup (IF MaxRank >= 4 THEN {<<2, 1, 3, 2>>} ELSE {})
\* valid (function, call form, ddof, kind) combinations
RedCombos == {q \in RedFuncs \X {"func", "method"} \X {0, 1} \X (Kinds \cap {"rr", "cc"}) :
                /\ (q[2] = "method" => q[1] \in RedMethods)
                /\ (q[3] = 1 => q[1] \in {"var", "std"})
                /\ (q[4] = "cc" => q[1] \in RedComplex)}
ReduceFamily(z) ==
  UNION {{Cfg(q[1], q[2], s, <<>>, <<>>, 0, ax, kd, q[3], 0, <<>>, "-", q[4], "array", ReduceShape(s, ax, kd)) :
            q \in {qq \in RedCombos : qq[2] = "method" => s # <<>>},
            \* var/std with N - ddof <= 0 is not a regular point
            ax \in {a \in AxisChoices(Len(s)) : NReduced(s, a) >= 2}, kd \in BOOLEAN} : s \in RedShapes}
  \cup UNION {{Cfg(q[1], q[2], s, <<>>, <<>>, 0, ax, kd, q[3], 0, <<>>, "-", q[4], "array", ReduceShape(s, ax, kd)) :
            \* a single reduced element: var / std with ddof = 0 are identically 0 there (regular, and special-cased by the rules); ddof = 1 is 0/0
            q \in {qq \in RedCombos : (qq[2] = "method" => s # <<>>) /\ (qq[1] \in {"var", "std"} => qq[3] = 0)},
            ax \in {a \in AxisChoices(Len(s)) : NReduced(s, a) < 2}, kd \in BOOLEAN} : s \in RedShapes}
CumFamily(z) ==
  UNION {{Cfg("cumsum", f, s, <<>>, <<>>, 0, ax, FALSE, 0, 0, <<>>, "-", "rr", "array", NA) :
            f \in {"func", "method"}, ax \in {a \in AxisChoices(Len(s)) : a.k # "tuple"}} : s \in RedShapes}
\* ---------------------------------------------------------------- elementwise unary
UnaryFuncs == {"negative", "abs", "absolute", "fabs", "exp", "exp2", "expm1", "log", "log2", "log10", "log1p", "sin", "cos", "tan",
               "arcsin", "arccos", "arctan", "sinh", "cosh", "tanh", "arcsinh", "arccosh", "arctanh", "sqrt", "square", "reciprocal",
               "sinc", "sign", "deg2rad", "rad2deg", "degrees", "radians", "real", "imag", "conj", "conjugate", "angle",
               "real_if_close", "nan_to_num", "floor", "ceil", "rint", "trunc"}
UnaryComplex == {"negative", "abs", "absolute", "exp", "log", "sin", "cos", "tan", "sinh", "cosh", "tanh", "sqrt", "square",
                 "reciprocal", "real", "imag", "conj", "conjugate", "angle", "real_if_close"}
UnaryFamily(z) ==
  {c \in {Cfg(p, f, s, <<>>, <<>>, 0, NoAx, FALSE, 0, 0, <<>>, q, k, sc, s) :
            p \in UnaryFuncs, f \in {"func", "op", "method"}, s \in {<<>>, <<3>>, <<2, 3>>, <<1, 2>>}, k \in {"rr", "cc"} \cap Kinds,
            sc \in {"array", "pyfloat", "zerod"}, q \in {"-", "q2", "q3", "q4"}} :
     /\ (c.st # "-" => c.kind = "cc" /\ c.form = "func")      \* complex points in the other three quadrants
     /\ (c.form = "op" => c.prim \in {"negative", "abs"})
     /\ (c.form = "method" => c.prim \in {"conj", "conjugate"} /\ c.s # <<>>)
     /\ (c.kind = "cc" => c.prim \in UnaryComplex)
     /\ IF c.s = <<>> THEN c.scal \in {"pyfloat", "zerod"} ELSE c.scal = "array"}


\* ---------------------------------------------------------------- rearrangements (one argument, shape/axis/index parameters)
R1(prim, form, s, ax, ia, ib, tp, st) == Cfg(prim, form, s, <<>>, <<>>, 0, ax, FALSE, ia, ib, tp, st, "rr", "array", NA)
AxInt(a) == [k |-> "int", a |-> a]
RShapes == {<<>>, <<3>>, <<1>>, <<2, 3>>, <<3, 1>>, <<1, 3>>} \cup (IF MaxRank >= 3 THEN {<<2, 3, 1>>, <<3, 2, 2>>, <<2, 1, 3>>} ELSE {})
RShapes1 == RShapes \ {<<>>}
SignVariants(p, n) == {[i \in 1..n |-> p[i]], [i \in 1..n |-> p[i] - n], [i \in 1..n |-> IF i % 2 = 1 THEN p[i] - n ELSE p[i]],
                       [i \in 1..n |-> IF i % 2 = 0 THEN p[i] - n ELSE p[i]]}
SignName(p) == IF \A i \in DOMAIN p : p[i] >= 0 THEN "pos" ELSE IF \A i \in DOMAIN p : p[i] < 0 THEN "neg" ELSE "mixed"
ReshapeTargets(n) == {<<n>>, <<-1>>, <<1, n>>, <<n, 1>>, <<-1, 1>>} \cup (IF n = 6 THEN {<<3, 2>>, <<2, -1>>, <<3, -1, 2>>} ELSE {})
                     \cup (IF n = 12 THEN {<<2, 2, 3>>, <<4, -1>>, <<3, 4>>} ELSE {})
RearrFamily(z) ==
  UNION {
    \* transposition family
    {R1("transpose", f, s, NoAx, 0, 0, <<>>, "none") : f \in {"func", "method", "T"}}
    \cup {R1("transpose", f, s, NoAx, 0, 0, q, SignName(q)) : f \in {"func", "method", "method_tuple"}, q \in UNION {SignVariants(p, Len(s)) : p \in Perms(Len(s))}}
    \cup {R1(p, "func", s, NoAx, a, b, <<>>, "-") : p \in {"swapaxes", "moveaxis"}, a \in AxisInts(Len(s)), b \in AxisInts(Len(s))}
    \cup {R1("swapaxes", "method", s, NoAx, a, b, <<>>, "-") : a \in AxisInts(Len(s)), b \in AxisInts(Len(s))}
    \cup {R1("rollaxis", "func", s, NoAx, a, b, <<>>, "-") : a \in AxisInts(Len(s)), b \in (-Len(s))..Len(s)}
    \cup {R1("expand_dims", "func", s, NoAx, a, 0, <<>>, "-") : a \in (-Len(s) - 1)..Len(s)}
    \cup {R1("squeeze", f, s, NoAx, 0, 0, <<>>, "-") : f \in {"func", "method"}}
    \cup {R1("squeeze", "func", s, AxInt(a), 0, 0, <<>>, "-") : a \in {b \in AxisInts(Len(s)) : s[NormAxis(b, Len(s)) + 1] = 1}}
    \cup {R1("reshape", f, s, NoAx, 0, 0, t, o) : f \in {"func", "method", "method_tuple"}, t \in ReshapeTargets(Size(s)), o \in {"C", "F"}}
    \cup {R1("ravel", f, s, NoAx, 0, 0, <<>>, o) : f \in {"func", "method"}, o \in {"C", "F"}}
    \cup {R1("flatten", "method", s, NoAx, 0, 0, <<>>, o) : o \in {"-", "F", "Fpos"}}          \* x.flatten(), x.flatten(order="F"), x.flatten("F")
    \cup {R1("ravel", "method", s, NoAx, 0, 0, <<>>, "Fpos")}                                   \* x.ravel("F")
    \* repetition
    \cup {R1("repeat", f, s, ax, r, 0, <<>>, "-") : f \in {"func", "method"}, r \in 1..3, ax \in {NoAx} \cup {AxInt(a) : a \in AxisInts(Len(s))}}
    \cup {R1("tile", "func", s, NoAx, 0, 0, t, "-") : t \in {<<2>>, <<1, 2>>, <<2, 1>>, <<2, 2>>, <<1, 1, 2>>, <<2, 1, 1, 1>>}}
    \cup {R1("tile", "func", s, NoAx, 2, 0, <<>>, "int")}
    \cup {R1("broadcast_to", "func", s, NoAx, 0, 0, t, "-") : t \in {tt \in {<<2, 3>>, <<2, 2, 3>>, <<3>>, <<1, 3>>, <<2, 1, 3>>, <<3, 3>>} : BroadcastOK(s, tt) /\ Broadcast(s, tt) = tt}}
    \* shifts, flips, triangles, diagonals
    \cup {R1("roll", "func", s, ax, sh, 0, <<>>, "-") : sh \in {1, -1, 2}, ax \in {NoAx} \cup {AxInt(a) : a \in AxisInts(Len(s))}}
    \cup {R1(p, "func", s, NoAx, 0, 0, <<>>, "-") : p \in {"flipud", "fliplr", "atleast_1d", "atleast_2d", "atleast_3d", "make_diagonal", "sort0", "msort"}}
    \cup {R1("flip", "func", s, ax, 0, 0, <<>>, "-") : ax \in {NoAx} \cup {AxInt(a) : a \in AxisInts(Len(s))}}
    \cup {R1("rot90", "func", s, NoAx, k, 0, <<>>, "-") : k \in {-1, 0, 1, 2, 3}}
    \cup {R1(p, "func", s, NoAx, k, 0, <<>>, "-") : p \in {"triu", "tril", "diag", "diagflat"}, k \in {-1, 0, 1}}
    \cup {R1(p, f, s, NoAx, k, 0, <<>>, "-") : p \in {"trace", "diagonal"}, f \in {"func", "method"}, k \in {-1, 0, 1}}
    \cup {R1(p, "func", s, NoAx, k, 0, t, "axes") : p \in {"trace", "diagonal"}, k \in {0, 1},
                                                   t \in {tt \in AxisTuples(Len(s), 2) : TRUE}}
    \* differences, padding, splitting, sorting, clipping
    \cup {R1("diff", "func", s, AxInt(a), n, 0, <<>>, "-") : n \in {1, 2}, a \in AxisInts(Len(s))}
    \cup {R1("gradient", "func", s, NoAx, 0, 0, <<>>, "-")}
    \cup {R1("gradient", "func", s, AxInt(a), 0, 0, <<>>, "axis") : a \in AxisInts(Len(s))}
    \cup {R1("pad", "func", s, NoAx, w, 0, <<>>, st) : w \in {1, 2}, st \in {"int", "cv", "cvpair", "modekw"}}
    \cup {R1("pad", "func", s, NoAx, 0, 0, t, "pair") : t \in {<<1, 2>>, <<0, 1>>}}
    \cup {R1("pad", "func", s, NoAx, 0, 0, t, "pairs") : t \in {<<1, 0, 0, 1, 2, 0>>, <<0, 1, 2, 0, 1, 1>>}}
    \cup {R1(p, "func", s, AxInt(a), sec, pc, <<>>, "-") : p \in {"split", "array_split"}, a \in AxisInts(Len(s)), sec \in {1, 2, 3}, pc \in {0, 1}}
    \cup {R1("array_split", "func", s, AxInt(a), 0, pc, t, "indices") : a \in AxisInts(Len(s)), t \in {<<1>>, <<1, 2>>}, pc \in {0, 1}}
    \cup {R1(p, "func", s, NoAx, sec, pc, <<>>, "-") : p \in {"hsplit", "vsplit", "dsplit"}, sec \in {1, 2, 3}, pc \in {0, 1}}
    \cup {R1("sort", f, s, ax, 0, 0, <<>>, "-") : f \in {"func"}, ax \in {NoAx} \cup {AxInt(a) : a \in AxisInts(Len(s))}}
    \cup {R1("sort", "func", s, NoAx, 0, 0, <<>>, "default")}
    \cup {R1("partition", "func", s, NoAx, k, 0, <<>>, "default") : k \in {0, 1}}
    \cup {R1("clip", f, s, NoAx, 0, 0, <<>>, b) : f \in {"func", "method"}, b \in {"-", "upper", "lower", "kwmax", "kwmin", "kwboth"}}   \* one bound None / by keyword
    \* casts: widening / identity / narrowing (float64 -> float32, float16), and real <-> complex via the kind (complex128 -> float64 is handled
    \* by NumPy with a ComplexWarning: the real part)
    \cup {R1("astype", "method", s, NoAx, 0, 0, <<>>, t) : t \in {"float64", "float32", "float16", "complex128"}}
    \cup {R1(p, "func", s, ax, 0, 0, <<>>, "-") : p \in {"fftshift", "ifftshift"}, ax \in {NoAx} \cup {AxInt(a) : a \in AxisInts(Len(s))}}
    \cup {R1("full", "func", s, NoAx, 0, 0, t, "-") : t \in {<<2, 3>>, <<3>>}}
    : s \in RShapes}
  \cup {Cfg("linspace", "func", <<>>, <<>>, <<>>, n, NoAx, FALSE, k, 0, <<>>, "-", "rr", "array", NA) : n \in {0, 1}, k \in {1, 4, 5}}
  \* np.gradient needs at least 4 points along the differentiated axis for its reverse rule
  \cup UNION {{R1("gradient", "func", s, AxInt(a), 0, 0, <<>>, "axis") : a \in AxisInts(Len(s))} \cup {R1("gradient", "func", s, NoAx, 0, 0, <<>>, "-")}
              : s \in {<<5>>, <<4>>, <<2, 4>>, <<4, 2>>, <<4, 5>>}}
  \* several axes at once (NumPy returns one array per axis; the harness combines them with distinct weights): no axis on a 2-D array, tuple / list axis
  \cup {R1("gradient", "func", s, NoAx, 0, 0, t, st) : s \in {<<4, 5>>, <<4, 4>>, <<5, 4>>}, t \in {<<0, 1>>, <<1, 0>>, <<-1, 0>>, <<0>>, <<-1>>}, st \in {"tupleaxis", "listaxis"}}
  \cup {R1("gradient", "func", s, NoAx, 0, 0, <<>>, "multi") : s \in {<<4, 5>>, <<4, 4>>}}


\* ---------------------------------------------------------------- joins: several operands, some of them the differentiated value
\* ia = number of operands, ib = bitmask of the positions that hold the differentiated array (others are constants of the same shape)
JShapes == {<<3>>, <<2, 3>>, <<1, 3>>} \cup (IF MaxRank >= 3 THEN {<<2, 3, 2>>} ELSE {})
J1(prim, s, ax, n, mask, st) == Cfg(prim, "func", s, <<>>, <<>>, 0, ax, FALSE, n, mask, <<>>, st, "rr", "array", NA)
Masks(n) == 1..(IF n = 1 THEN 1 ELSE IF n = 2 THEN 3 ELSE 7)
JoinFamily(z) ==
  UNION {
    {J1("concatenate", s, AxInt(a), n, m, st) : a \in AxisInts(Len(s)), n \in 1..3, m \in Masks(3), st \in {"list", "tuple"}}
    \cup {J1("concatenate", s, NoAx, n, m, "list") : n \in 2..3, m \in Masks(3)}
    \cup {J1("stack", s, AxInt(a), n, m, "list") : a \in (-Len(s) - 1)..Len(s), n \in 1..3, m \in Masks(3)}
    \cup {J1(p, s, NoAx, n, m, st) : p \in {"vstack", "hstack", "column_stack", "row_stack"}, n \in 1..3, m \in Masks(3), st \in {"list", "tuple"}}
    \cup {J1("append", s, ax, 2, m, "-") : ax \in {NoAx} \cup {AxInt(a) : a \in AxisInts(Len(s))}, m \in 1..3}
    \cup {J1("array", s, NoAx, n, m, st) : n \in 1..3, m \in Masks(3), st \in {"list", "nested", "ndmin", "bare", "listndmin1", "listndmin3", "listdtype", "tuple"}}
    \cup {J1(p, s, NoAx, n, m, "-") : p \in {"r_", "c_"}, n \in 1..3, m \in Masks(3)}
    \cup {J1("select", s, NoAx, 2, m, "-") : m \in 1..7}
    : s \in JShapes}
  \cup {J1("array", <<>>, NoAx, n, m, "scalars") : n \in 1..3, m \in Masks(3)}
  \cup {J1("r_", <<>>, NoAx, n, m, "-") : n \in 2..3, m \in Masks(3)}

\* ---------------------------------------------------------------- contractions
CShapes == {<<>>, <<3>>, <<2>>, <<2, 3>>, <<3, 2>>, <<1, 3>>, <<3, 3>>} \cup (IF MaxRank >= 3 THEN {<<2, 2, 3>>, <<2, 3, 2>>, <<3, 2, 3>>, <<1, 3, 2>>} ELSE {})
K1(prim, form, a, b, n, ia, tp, st, k) == Cfg(prim, form, a, b, <<>>, n, NoAx, FALSE, ia, 0, tp, st, k, "array", NA)
ContractFamily(z) ==
  {K1(p, "func", a, b, n, 0, <<>>, "-", k) : p \in {"dot", "matmul", "inner", "outer", "kron"}, a \in CShapes, b \in CShapes, n \in {0, 1}, k \in Kinds}
  \cup {K1("matmul", "op", a, b, n, 0, <<>>, "-", "rr") : a \in CShapes, b \in CShapes, n \in {0, 1}}
  \cup {K1("dot", "method", a, b, 0, 0, <<>>, "-", "rr") : a \in CShapes \ {<<>>}, b \in CShapes}
  \cup {K1("tensordot", "func", a, b, n, i, <<>>, "int", k) : a \in CShapes, b \in CShapes, n \in {0, 1}, i \in 0..2, k \in Kinds}
  \cup {K1("tensordot", "func", a, b, n, 0, t, "pairs", "rr") : a \in CShapes, b \in CShapes, n \in {0, 1},
           t \in {<<0, 0>>, <<-1, 0>>, <<1, -1>>, <<0, 1, 0, 1>>, <<1, 0, 0, 1>>, <<-1, -2, 1, 0>>, <<0, -1, -1, 0>>}}
  \cup {K1("tensordot", "func", a, b, n, 0, t, "intpair", "rr") : a \in CShapes, b \in CShapes, n \in {0, 1}, t \in {<<0, 0>>, <<-1, -1>>, <<-1, 0>>}}
  \cup {K1("cross", "func", a, b, n, 0, t, st, "rr") : a \in {<<3>>, <<2>>, <<2, 3>>, <<1, 3>>, <<3, 2>>, <<3, 3>>}, b \in {<<3>>, <<2>>, <<2, 3>>, <<1, 3>>, <<3, 2>>, <<3, 3>>},
           n \in {0, 1}, t \in {<<>>}, st \in {"-", "axis0", "axis-1", "axisa0"}}
  \cup {K1("einsum", f, e[2], e[3], n, 0, <<>>, e[1], "rr") : f \in {"func", "list"}, n \in {0, 1},
           e \in {<<"ij,jk->ik", <<2, 3>>, <<3, 2>> >>, <<"ij,jk", <<2, 3>>, <<3, 2>> >>, <<"ij,ij->", <<2, 3>>, <<2, 3>> >>, <<"i,i", <<3>>, <<3>> >>,
                  <<"ij,j", <<2, 3>>, <<3>> >>, <<"i,j->ij", <<3>>, <<2>> >>, <<"ijk,k->ij", <<2, 3, 2>>, <<2>> >>, <<"ij,kj->ik", <<1, 3>>, <<2, 3>> >>,
                  <<"...ij,...jk->...ik", <<2, 2, 3>>, <<3, 2>> >>, <<"...ij,...jk->...ik", <<2, 3>>, <<2, 3, 2>> >>, <<"i...,i->...", <<3, 2>>, <<3>> >>,
                  <<"...,...->...", <<2, 3>>, <<3>> >>, <<"i...j,j->i...", <<2, 3, 2>>, <<2>> >>, <<"ij,ji->", <<2, 3>>, <<3, 2>> >>,
                  <<"i...j,...j->i...", <<2, 3, 2>>, <<2>> >>, <<"ij...,j->i...", <<2, 3, 2>>, <<3>> >>, <<"ij...,j...->i...", <<2, 3>>, <<3, 2>> >>,
                  \* an operand broadcast against TWO ellipsis dimensions of the other one (trailing, leading and centre ellipsis)
                  <<"i...,i...->...", <<3>>, <<3, 3, 2>> >>, <<"i...,i...->...", <<2, 3, 2>>, <<2>> >>, <<"...i,...i->...", <<3>>, <<2, 3, 3>> >>,
                  <<"i...,i...->i...", <<2>>, <<2, 2, 3>> >>, <<"i...j,ij->...", <<2, 3, 2, 2>>, <<2, 2>> >>, <<"i...,...->i...", <<2>>, <<3, 2>> >>}}
  \* a length-1 axis under a NAMED subscript is stretched by NumPy just like one under an ellipsis; and mixed real/complex operands
  \cup {K1("einsum", f, e[2], e[3], n, 0, <<>>, e[1], k) : f \in {"func", "list"}, n \in {0, 1}, k \in Kinds,
           e \in {<<"ij,ij->ij", <<1, 3>>, <<2, 3>> >>, <<"ij,ij->ij", <<2, 3>>, <<2, 1>> >>, <<"ij,jk->ik", <<2, 1>>, <<3, 2>> >>, <<"i,i->", <<1>>, <<3>> >>,
                  <<"ij,ij->", <<2, 3>>, <<1, 3>> >>, <<"ij,kj->ik", <<2, 3>>, <<2, 1>> >>, <<"ij,jk->ik", <<2, 3>>, <<3, 2>> >>, <<"i,j->ij", <<3>>, <<2>> >>,
                  <<"...ij,...jk->...ik", <<1, 2, 3>>, <<2, 3, 2>> >>, <<"i...,i->...", <<1, 2>>, <<3>> >>}}
  \cup {K1("einsum", "func", e[2], <<>>, 0, 0, <<>>, e[1], "rr") :
           e \in {<<"ii->i", <<3, 3>> >>, <<"ii", <<3, 3>> >>, <<"ij->j", <<2, 3>> >>, <<"ij->", <<2, 3>> >>, <<"ij->ji", <<2, 3>> >>, <<"i...->...", <<3, 2>> >>, <<"...i->i...", <<2, 3>> >>}}


\* ---------------------------------------------------------------- the SciPy wrappers: autograd.scipy.special / .stats / .linalg / .signal
\* prim = "<module>.<name>" below autograd.scipy.  Differentiated argument = argnum; a position without a registered rule must raise.
\* (The repository's own interpreter has no SciPy, so its test suite never runs these rules; the replay uses the tooling interpreter.)
SciShapes == {<<>>, <<3>>, <<2, 3>>, <<1, 3>>, <<2, 1>>}
SciPairs == {pr \in SciShapes \X SciShapes : BroadcastOK(pr[1], pr[2])}
SciTriples == {t \in SciShapes \X SciShapes \X SciShapes : BroadcastOK(t[1], t[2]) /\ BroadcastOK(Broadcast(t[1], t[2]), t[3])}
S1(prim, s, s2, s3, n, ia, ax, kd, tp, st) == Cfg(prim, "func", s, s2, s3, n, ax, kd, ia, 0, tp, st, "rr", "array", NA)
SciUnary == {"special.gammaln", "special.gamma", "special.rgamma", "special.psi", "special.digamma", "special.erf", "special.erfc", "special.erfinv",
             "special.erfcinv", "special.logit", "special.expit", "special.i0", "special.i1", "special.j0", "special.j1", "special.y0", "special.y1",
             "special.gammasgn"}
SciOrder == {"special.polygamma", "special.jn", "special.yn", "special.iv", "special.ive"}       \* f(n, x), n an integer order (ia)
SciBinary == {"special.beta", "special.betaln", "special.gammainc", "special.gammaincc", "stats.gamma.pdf", "stats.gamma.logpdf", "stats.gamma.cdf",
              "stats.chi2.pdf", "stats.chi2.logpdf", "stats.chi2.cdf", "stats.poisson.pmf", "stats.poisson.logpmf", "stats.poisson.cdf"}
SciTernary == {"special.betainc", "stats.norm.pdf", "stats.norm.cdf", "stats.norm.sf", "stats.norm.logpdf", "stats.norm.logcdf", "stats.norm.logsf",
               "stats.beta.pdf", "stats.beta.logpdf", "stats.beta.cdf"}
SciT == {"stats.t.pdf", "stats.t.cdf", "stats.t.logpdf", "stats.t.logcdf"}                       \* (x, df, loc, scale); scale has loc's shape
LseShapes == {<<3>>, <<2, 3>>, <<1, 3>>, <<3, 1>>} \cup (IF MaxRank >= 3 THEN {<<2, 3, 2>>, <<2, 1, 3>>} ELSE {})
ScipyFamily(z) ==
  {S1(p, sh, <<>>, <<>>, 0, 0, NoAx, FALSE, <<>>, "-") : p \in SciUnary, sh \in SciShapes}
  \cup {S1(p, sh, <<>>, <<>>, 1, k, NoAx, FALSE, <<>>, "-") : p \in SciOrder, sh \in SciShapes, k \in 0..3}
  \* the functions of integer order that are defined on the whole real axis, at negative arguments
  \cup {S1(p, sh, <<>>, <<>>, 1, k, NoAx, FALSE, <<>>, "neg") : p \in {"special.jn", "special.iv", "special.ive"}, sh \in SciShapes, k \in 0..3}
  \* the normal distribution far out in either tail (|z| > 40: pdf, cdf or sf underflow, the logarithmic forms are what the tails are for)
  \cup {S1(p, t[1], t[2], t[3], n, 0, NoAx, FALSE, <<>>, st) : p \in {pp \in SciTernary : pp \in {"stats.norm.pdf", "stats.norm.cdf", "stats.norm.sf",
           "stats.norm.logpdf", "stats.norm.logcdf", "stats.norm.logsf"}}, t \in SciTriples, n \in 0..2, st \in {"lotail", "hitail"}}
  \cup {S1("special.multigammaln", sh, <<>>, <<>>, 0, d, NoAx, FALSE, <<>>, "-") : sh \in SciShapes, d \in 1..3}
  \cup {S1(p, pr[1], pr[2], <<>>, n, 0, NoAx, FALSE, <<>>, "-") : p \in SciBinary, pr \in SciPairs, n \in {0, 1}}
  \cup {S1(p, t[1], t[2], t[3], n, 0, NoAx, FALSE, <<>>, "-") : p \in SciTernary, t \in SciTriples, n \in 0..2}
  \cup {S1(p, t[1], t[2], t[3], n, 0, NoAx, FALSE, <<>>, st) : p \in SciT, t \in SciTriples, n \in 0..3, st \in {"-", "kw"}}
  \* logsumexp(x, axis, b, keepdims): weights b absent / a scalar / an array of x's shape / broadcast along the first axis
  \cup UNION {{S1("special.logsumexp", sh, <<>>, <<>>, 0, 0, ax, kd, <<>>, st) :
                 ax \in AxisChoices(Len(sh)), kd \in BOOLEAN, st \in {"-", "bscalar", "b", "bbroadcast"}} : sh \in LseShapes}
  \cup {S1(p, <<3>>, <<3>>, <<>>, n, 0, NoAx, FALSE, <<>>, "-") : p \in {"stats.dirichlet.pdf", "stats.dirichlet.logpdf"}, n \in {0, 1}}
  \cup {S1(p, sh, <<3>>, <<3, 3>>, n, 0, NoAx, FALSE, <<>>, st) : p \in {"stats.multivariate_normal.pdf", "stats.multivariate_normal.logpdf"},
           sh \in {<<3>>, <<2, 3>>, <<2, 2, 3>>}, n \in 0..2, st \in {"-", "singular"}}
  \cup {S1("stats.multivariate_normal.entropy", <<3>>, <<3, 3>>, <<>>, n, 0, NoAx, FALSE, <<>>, "-") : n \in {0, 1}}
  \cup {S1("linalg.sqrtm", sh, <<>>, <<>>, 0, 0, NoAx, FALSE, <<>>, "-") : sh \in {<<2, 2>>, <<3, 3>>}}
  \* solve_triangular(a, b, trans, lower): trans as int (ia) or as 'N' / 'T' / 'C'
  \cup {S1("linalg.solve_triangular", <<3, 3>>, b, <<>>, n, tr, NoAx, lo, <<>>, st) :
           b \in {<<3>>, <<3, 2>>}, n \in {0, 1}, tr \in 0..2, lo \in BOOLEAN, st \in {"int", "str", "default", "overwrite", "unitdiag"}}
  \cup {S1("linalg.solve_sylvester", <<2, 2>>, <<3, 3>>, <<2, 3>>, n, 0, NoAx, FALSE, <<>>, "-") : n \in 0..2}
  \* solve_banded((l, u), ab, b): ab has l + u + 1 rows; argnum 1 = ab, 2 = b
  \cup {S1("linalg.solve_banded", <<lu[1] + lu[2] + 1, 4>>, b, <<>>, n, 0, NoAx, FALSE, lu, "-") :
           lu \in {<<1, 1>>, <<1, 0>>, <<0, 1>>, <<2, 1>>, <<0, 0>>}, b \in {<<4>>, <<4, 2>>}, n \in {1, 2}}
  \* signal.convolve(A, B, axes, dot_axes, mode); ia selects the axes layout:
  \*   0 axes=None   1 axes=([1],[1]) dot_axes=([0],[0])   2 axes=([1],[0]) (A's axis 0 is kept)   3 axes=([0,1],[0,1])   4 axes=([1],[1]) (both keep axis 0)
  \cup {S1("signal.convolve", q[1], q[2], <<>>, n, q[3], NoAx, FALSE, <<>>, md) : n \in {0, 1}, md \in {"full", "valid"},
           q \in {<< <<3>>, <<4>>, 0>>, << <<5>>, <<3>>, 0>>, << <<3>>, <<3>>, 0>>, << <<2, 3>>, <<3, 4>>, 0>>, << <<3, 3>>, <<2, 2>>, 0>>,
                  << <<2, 3>>, <<2, 5>>, 1>>, << <<2, 5>>, <<2, 3>>, 1>>, << <<2, 3>>, <<4>>, 2>>, << <<2, 4>>, <<3>>, 2>>,
                  << <<2, 3>>, <<3, 4>>, 3>>, << <<2, 3>>, <<3, 5>>, 4>>,
                  \* 5: a batch axis on A, two dot axes: axes=([3],[2]) dot_axes=([1,2],[0,1])    6: two kept axes on A, one on B: axes=([2],[1])
                  << <<2, 4, 5, 3>>, <<4, 5, 6>>, 5>>, << <<2, 4, 5, 6>>, <<4, 5, 3>>, 5>>, << <<2, 3, 5>>, <<4, 3>>, 6>>, << <<2, 3, 3>>, <<4, 5>>, 6>>}}

\* ---------------------------------------------------------------- index expressions  x[idx]  (C11)
\* An index is a sequence of items (st = "tuple": passed as a tuple; "bare": the single item itself; "list": a top-level Python list).
\* Items: [t |-> "int", v], [t |-> "slice", v |-> <<start, stop, step>>] with 9 = None, [t |-> "ell"], [t |-> "new"],
\*        [t |-> "arr", v |-> <<i, ...>>] integer ndarray, [t |-> "list", v |-> <<i, ...>>] Python list, [t |-> "arr2", v] 2 x 2 integer ndarray (flattened),
\*        [t |-> "mask", v |-> <<0/1 ...>>] boolean ndarray over one axis, [t |-> "maskfull"] boolean array of the full shape
\* Entries are valid for a dimension of size >= 3 (the indexed shapes use sizes 3 and 4); NumPy decides what it accepts.
IShapes == {<<4>>, <<3, 4>>} \cup (IF MaxRank >= 3 THEN {<<3, 3, 4>>} ELSE {})
IInt == {[t |-> "int", v |-> v] : v \in {0, -1, 2}}
ISlice == {[t |-> "slice", v |-> v] : v \in {<<9, 9, 9>>, <<1, 9, 9>>, <<9, 9, -1>>, <<9, 9, 2>>, <<-3, -1, 9>>, <<2, 0, -1>>, <<0, 3, 2>>}}
IArr == {[t |-> k, v |-> v] : k \in {"arr", "list"}, v \in {<<0, 0, 1>>, <<2, 0>>, <<-1, 1, -1>>, <<1>>}}
IArr2 == {[t |-> "arr2", v |-> <<0, 1, 1, 0>>], [t |-> "arr2", v |-> <<2, 2, 0, -1>>]}
IMask == {[t |-> "mask", v |-> <<1, 0, 1>>], [t |-> "mask", v |-> <<0, 1, 1>>]}
IOther == {[t |-> "ell"], [t |-> "new"]}
IItems == IInt \cup ISlice \cup IArr \cup IArr2 \cup IMask \cup IOther
I1(s, items, st) == Cfg("getitem", "op", s, <<>>, <<>>, 0, NoAx, FALSE, 0, 0, items, st, "rr", "array", NA)
\* a 0-d array can be indexed too: x[()], x[...], x[None], x[..., None]
ZeroDIndex == {I1(<<>>, t, "tuple") : t \in {<<>>, <<[t |-> "ell"]>>, <<[t |-> "new"]>>, <<[t |-> "ell"], [t |-> "new"]>>, <<[t |-> "new"], [t |-> "new"]>>}}
              \cup {I1(<<>>, <<[t |-> "ell"]>>, "bare"), I1(<<>>, <<[t |-> "new"]>>, "bare")}
Consumes(it) == IF it.t \in {"ell", "new"} THEN 0 ELSE 1
RECURSIVE SumConsumes(_, _)
SumConsumes(items, i) == IF i > Len(items) THEN 0 ELSE Consumes(items[i]) + SumConsumes(items, i + 1)
IndexFamily(z) ==
  UNION {
    {I1(s, <<a>>, st) : a \in IItems, st \in {"tuple", "bare"}}
    \cup {I1(s, <<a, b>>, "tuple") : a \in IItems, b \in IItems}
    \cup (IF Len(s) >= 2 THEN {I1(s, <<a, b, c>>, "tuple") : a \in IInt \cup {[t |-> "slice", v |-> <<9, 9, 9>>], [t |-> "ell"], [t |-> "list", v |-> <<0, 0, 1>>], [t |-> "arr", v |-> <<2, 0>>]},
                                                              b \in IItems, c \in IInt \cup {[t |-> "slice", v |-> <<9, 9, 2>>], [t |-> "new"], [t |-> "list", v |-> <<2, 0>>], [t |-> "arr", v |-> <<0, 0, 1>>], [t |-> "mask", v |-> <<1, 0, 1>>]}}
          ELSE {})
    \cup {I1(s, <<[t |-> "list", v |-> v]>>, "list") : v \in {<<0, 0, 1>>, <<2, 0>>, <<-1, 1, -1>>}}
    \cup {I1(s, <<[t |-> "maskfull"]>>, "bare"), I1(s, <<>>, "tuple")}
    : s \in IShapes}


\* ---------------------------------------------------------------- linalg
\* s = batch shape, ia = n (rows), ib = m (columns, 0 = square), st = variant, tp = extra ints, argnum as usual
L1(prim, batch, n, m, argnum, st, tp, k) == Cfg(prim, "func", batch, <<>>, <<>>, argnum, NoAx, FALSE, n, m, tp, st, k, "array", NA)
Batches == {<<>>, <<2>>, <<1>>, <<3>>} \cup (IF MaxRank >= 3 THEN {<<2, 1>>} ELSE {})     \* (a stack as long as the matrices are wide: an axis mix-up keeps the shape)
LinalgFamily(z) ==
  {L1(p, b, n, 0, 0, "-", <<>>, k) : p \in {"det", "slogdet", "inv", "pinv"}, b \in Batches, n \in 1..3, k \in Kinds \cap {"rr", "cc"}}
  \cup {L1("pinv", b, q[1], q[2], 0, "-", <<>>, "rr") : b \in Batches, q \in {<<2, 3>>, <<3, 2>>}}
  \cup {L1("solve", b, n, 0, a, st, <<>>, k) : b \in Batches, n \in 1..3, a \in {0, 1}, st \in {"vec", "mat"}, k \in Kinds \cap {"rr", "cc"}}
  \* kind "cc": Hermitian / general complex input; only phase-invariant outputs (eigen / singular values, |vectors|^2, the Cholesky factor)
  \cup {L1("cholesky", b, n, 0, 0, "-", <<>>, k) : b \in Batches, n \in 1..3, k \in Kinds \cap {"rr", "cc"}}
  \cup {L1("eigh", b, n, 0, 0, st, <<o>>, k) : b \in Batches, n \in 1..3, st \in {"L", "U", "default"}, o \in {0, 1}, k \in Kinds \cap {"rr", "cc"}}
  \cup {L1("eig", b, n, 0, 0, "-", <<o>>, k) : b \in Batches, n \in 1..3, o \in {0, 1}, k \in Kinds \cap {"rr", "cc"}}
  \cup {L1("svd", b, n, m, 0, st, <<o>>, k) : b \in Batches, n \in 2..3, m \in 2..3, st \in {"s_only", "thin", "full"}, o \in 0..2, k \in Kinds \cap {"rr", "cc"}}
  \cup {Cfg("norm", "func", sh, <<>>, <<>>, 0, ax, kd, 0, 0, <<>>, o, k, "array", NA) :
          sh \in {<<3>>, <<2, 3>>, <<3, 3>>} \cup (IF MaxRank >= 3 THEN {<<2, 3, 2>>} ELSE {}),
          ax \in UNION {{a \in AxisChoices(r) : a.k # "tuple" \/ Len(a.t) = 2} : r \in 1..3}, kd \in BOOLEAN,
          o \in {"none", "2", "3", "1", "inf", "-inf", "fro", "nuc", "0.5"}, k \in Kinds \cap {"rr", "cc"}}

\* ---------------------------------------------------------------- reading a component of a tuple-valued result (C12)
\* tp = <<component, way>> with way: 0 res[c], 1 res[c - len], 2 res[a:b][c - a] (a slice that contains c), 3 unpacking, 4 iteration, 5 reversed slice
SelTupleFamily(z) ==
  {L1(p[1], b, n, 0, 0, "sel", <<c, w>>, "rr") : p \in {<<"eigh", 2>>, <<"eig", 2>>, <<"slogdet", 2>>, <<"svd", 3>>}, b \in {<<>>, <<2>>}, n \in 2..3,
      c \in 0..2, w \in 0..5} \ {x \in {L1(p[1], b, n, 0, 0, "sel", <<c, w>>, "rr") : p \in {<<"eigh", 2>>, <<"eig", 2>>, <<"slogdet", 2>>}, b \in {<<>>, <<2>>}, n \in 2..3,
      c \in {2}, w \in 0..5} : TRUE}

\* ---------------------------------------------------------------- fft
\* ia = n (0 = None) for the 1-D transforms; tp = s argument (<<>> = None) and st2 in s3 field = axes for the n-D transforms; st = norm
F1(prim, sh, ax, n, sarg, axes, norm, k) == Cfg(prim, "func", sh, <<>>, axes, 0, ax, FALSE, n, 0, sarg, norm, k, "array", NA)
\* form "kw": the 1-D transforms called as fft(x, n=.., axis=.., norm=..) - autograd's own argument parser names the length parameter differently
F1kw(prim, sh, ax, n, norm, k) == Cfg(prim, "kw", sh, <<>>, <<>>, 0, ax, FALSE, n, 0, <<>>, norm, k, "array", NA)
FNorms == {"none", "ortho", "forward", "backward"}
\* (<<4, 6>> along axis 1 and <<6, 4>> along axis 0 give real transforms with identical result shapes and lengths: anything keyed on shapes
\*  alone confuses them)
FShapes == {<<4>>, <<3>>, <<2, 4>>, <<4, 2>>, <<6, 1>>, <<4, 6>>, <<6, 4>>} \cup (IF MaxRank >= 3 THEN {<<4, 2, 4>>} ELSE {})
FftFamily(z) ==
  UNION {
    {F1(p, sh, AxInt(a), n, <<>>, <<>>, nm, k) : p \in {"fft", "ifft"}, a \in AxisInts(Len(sh)), n \in {0, 2, 4, 6}, nm \in FNorms, k \in Kinds \cap {"rr", "cc"}}
    \cup {F1kw(p, sh, AxInt(a), n, nm, k) : p \in {"fft", "ifft"}, a \in AxisInts(Len(sh)), n \in {2, 4, 6}, nm \in {"none", "ortho"}, k \in Kinds \cap {"rr", "cc"}}
    \cup {F1kw("rfft", sh, AxInt(a), n, nm, "rr") : a \in AxisInts(Len(sh)), n \in {2, 4, 6}, nm \in {"none", "ortho"}}
    \cup {F1kw("irfft", sh, AxInt(a), n, nm, "cc") : a \in AxisInts(Len(sh)), n \in {2, 4, 6}, nm \in {"none", "ortho"}}
    \* the index shifts that go with the transforms, on real and on COMPLEX arrays (axes: none / one / a pair)
    \cup {F1(p, sh, ax, 0, <<>>, <<>>, "shift", k) : p \in {"fftshift", "ifftshift"}, ax \in {NoAx} \cup {AxInt(a) : a \in AxisInts(Len(sh))},
             k \in Kinds \cap {"rr", "cc"}}
    \cup {F1("rfft", sh, AxInt(a), n, <<>>, <<>>, nm, "rr") : a \in AxisInts(Len(sh)), n \in {0, 2, 4, 6}, nm \in FNorms}
    \cup {F1("irfft", sh, AxInt(a), n, <<>>, <<>>, nm, "cc") : a \in AxisInts(Len(sh)), n \in {0, 2, 4, 6}, nm \in FNorms}
    \cup (IF Len(sh) >= 2 THEN
           {F1(p, sh, NoAx, 0, sa, axes, nm, k) : p \in {"fft2", "ifft2", "fftn", "ifftn"}, sa \in {<<>>, <<2, 4>>, <<4, 2>>},
                axes \in {<<>>, <<0, 1>>, <<-2, -1>>, <<1, 0>>, <<0, 0>>, <<-1, -1>>}, nm \in FNorms, k \in Kinds \cap {"rr", "cc"}}
           \cup {F1(p, sh, NoAx, 0, sa, axes, nm, "rr") : p \in {"rfft2", "rfftn"}, sa \in {<<>>, <<2, 4>>, <<4, 2>>},
                axes \in {<<>>, <<0, 1>>, <<-2, -1>>, <<1, 0>>, <<0, 0>>}, nm \in FNorms}
           \cup {F1(p, sh, NoAx, 0, sa, axes, nm, "cc") : p \in {"irfft2", "irfftn"}, sa \in {<<>>, <<2, 4>>, <<4, 2>>},
                axes \in {<<>>, <<0, 1>>, <<-2, -1>>, <<1, 0>>}, nm \in FNorms}
         ELSE {})
    : sh \in FShapes}


\* ---------------------------------------------------------------- non-smooth points the rules handle explicitly (C01, second clause; C04)
\* st names the kind of point; the harness builds data that sits exactly on the kink
KinkFamily(z) ==
  {Cfg(p, f, s, <<>>, <<>>, 0, ax, kd, 0, 0, <<>>, t, "rr", "array", NA) :
      p \in {"max", "min", "amax", "amin"}, f \in {"func"}, s \in {<<3>>, <<2, 3>>, <<4>>}, ax \in {NoAx, AxInt(0), AxInt(-1)}, kd \in BOOLEAN,
      t \in {"tie2", "tie3", "alltie"}}
  \cup {Cfg(p, "func", s, s, <<>>, n, NoAx, FALSE, 0, 0, <<>>, t, "rr", "array", NA) :
      p \in {"maximum", "minimum", "fmax", "fmin"}, s \in {<<3>>, <<2, 3>>}, n \in {0, 1}, t \in {"equal_some", "equal_all"}}
  \cup {Cfg(p, f, s, <<>>, <<>>, 0, NoAx, FALSE, 0, 0, <<>>, "zero", "rr", "array", NA) :
      p \in {"abs", "absolute", "fabs"}, f \in {"func", "op"}, s \in {<<3>>, <<2, 3>>, <<>>}}
  \cup {Cfg("clip", f, s, <<>>, <<>>, 0, NoAx, FALSE, 0, 0, <<>>, t, "rr", "array", NA) :
      f \in {"func", "method"}, s \in {<<3>>, <<2, 3>>, <<4>>}, t \in {"at_lower", "at_upper", "at_both"}}
  \cup {Cfg("power", f, s, <<>>, <<>>, 0, NoAx, FALSE, e, 0, <<>>, "zero_base", "rr", "array", NA) :
      f \in {"func", "op"}, s \in {<<3>>, <<2, 3>>}, e \in {1, 2, 3}}


\* ---------------------------------------------------------------- every float argument of multi-argument functions (C15 / C02 / C01)
\* differentiating with respect to an argument for which no rule exists must raise; with a rule it must be exact.  ia = arity used.
ArgSweepFamily(z) ==
  {Cfg(p[1], "func", s, <<>>, <<>>, n, NoAx, FALSE, p[2], 0, <<>>, "-", "rr", "array", NA) :
      p \in {<<"clip", 3>>, <<"gradient", 2>>, <<"interp", 3>>, <<"convolve", 2>>, <<"heaviside", 2>>, <<"copysign", 2>>, <<"ldexp", 2>>,
             <<"nextafter", 2>>, <<"float_power", 2>>, <<"fmod", 2>>, <<"trapz", 2>>, <<"correlate", 2>>, <<"polyval", 2>>, <<"average", 2>>,
             <<"percentile", 2>>, <<"quantile", 2>>, <<"cov", 2>>, <<"searchsorted", 2>>, <<"digitize", 2>>, <<"histogram", 2>>},
      s \in {<<4>>, <<3>>}, n \in 0..2} \cap
  {c \in [prim : STRING, form : {"func"}, s : {<<4>>, <<3>>}, s2 : {<<>>}, s3 : {<<>>}, argnum : 0..2, ax : {NoAx}, kd : {FALSE}, ia : 2..3, ib : {0},
          tp : {<<>>}, st : {"-"}, kind : {"rr"}, scal : {"array"}, oshape : {NA}] : c.argnum < c.ia}


\* ---------------------------------------------------------------- the adjoint helper primitives, called directly (C07 / C01 / C02)
\* each is linear in each of its array arguments and has rules of its own; argnum selects which array argument is differentiated
HelperFamily(z) ==
  {Cfg(p, "func", a, b, <<>>, n, NoAx, FALSE, 0, 0, <<>>, "-", "rr", "array", NA) :
      p \in {"dot_adjoint_0", "dot_adjoint_1"}, a \in {<<3>>, <<2, 3>>, <<3, 2>>, <<2, 2, 3>>, <<>>}, b \in {<<3>>, <<3, 2>>, <<2, 3>>, <<2, 3, 2>>, <<>>}, n \in {0, 1}}
  \cup {Cfg(p, "func", a, b, <<>>, n, NoAx, FALSE, i, 0, <<>>, "int", "rr", "array", NA) :
      p \in {"tensordot_adjoint_0", "tensordot_adjoint_1"}, a \in {<<3>>, <<2, 3>>, <<3, 2>>, <<2, 2, 3>>}, b \in {<<3>>, <<3, 2>>, <<2, 3>>, <<2, 3, 2>>}, n \in {0, 1}, i \in 0..2}
  \cup {Cfg("truncate_pad", "func", a, <<>>, <<>>, 0, NoAx, FALSE, 0, 0, t, "-", k, "array", NA) :
      a \in {<<3>>, <<2, 3>>, <<4, 2>>}, t \in {<<2>>, <<4>>, <<2, 2>>, <<3, 4>>, <<4, 1>>}, k \in {"rr"}}
  \cup {Cfg("make_diagonal", "func", a, <<>>, <<>>, 0, NoAx, FALSE, o, 0, t, "-", "rr", "array", NA) :
      a \in {<<3>>, <<2, 3>>, <<2>>}, o \in {-1, 0, 1}, t \in {<<0, 1>>, <<1, 0>>, <<-1, -2>>, <<0, 2>>, <<-2, -1>>}}

\* ---------------------------------------------------------------- the extension API on array arguments of different shapes (C17, C14, C05)
\* A harness-registered primitive  user(a, b, shift=0) = A*B + shift  (broadcasting; ib = 1: summed to a scalar) where A = floor(a) when
\* argument 0 is declared non-differentiable (ia = 1), B = floor(b) when argument 1 is (ia = 2): the declaration `None` is then TRUE, and
\* what is under test is what the library makes of it - an exact zero in the space of THAT argument (reverse) / of the output (forward).
\* form = registration API: "defvjp" (positional), "argnums" (defvjp(.., argnums=(1, 0)) and defjvp likewise), "deprecated" / "defgrad" (the
\* pre-1.2 methods prim.defvjp(vjpmaker(g, ans, vs, gvs, *args), argnum) / prim.defgrad / prim.defvjp_is_zero, still exported)
ExtendFamily(z) ==
  {Cfg("userprod", api, t[1], t[2], <<>>, n, NoAx, FALSE, tbl, red, <<>>, "-", "rr", "array", NA) :
      \* tbl: 0 both rules, 1 argument 0 declared None, 2 argument 1 declared None, 3 both declared None (one declaration per argument)
      api \in {"defvjp", "argnums", "deprecated", "defgrad"}, n \in {0, 1}, tbl \in 0..3, red \in {0, 1},
      t \in {tt \in (Shapes(2) \cup {<<2, 1, 3>>}) \X (Shapes(2) \cup {<<2, 1, 3>>}) : BroadcastOK(tt[1], tt[2])}}

\* ---------------------------------------------------------------- smooth functions at special points (C01 / C02: "for every input")
\* The generic families evaluate at generic points.  Rules written as quotients (ans / x, sin(pi x) / (pi x)^2) are exact there and NaN
\* where the quotient degenerates although the FUNCTION is smooth.  st = kind of point:
\*   "zero1"  one entry (the first) is exactly 0     "zeros" every entry is 0     "zero2" the first two entries are 0 (reductions)
\*   "big"    entries +-400 (saturated tanh, logaddexp far from the crossover ...)
\* ia = exponent / second operand selector for the binary ones, argnum = differentiated operand
SpecialUnary == {"sin", "cos", "tan", "tanh", "sinh", "cosh", "arcsin", "arctan", "arcsinh", "expm1", "log1p", "exp", "exp2", "square", "sinc",
                 "negative", "deg2rad"}
SpecialBig == {"tanh", "arctan", "arcsinh", "logaddexp", "logaddexp2"}
SpecialFamily(z) ==
  {Cfg(p, "func", s, <<>>, <<>>, 0, NoAx, FALSE, 0, 0, <<>>, t, "rr", "array", NA) : p \in SpecialUnary, s \in {<<3>>, <<2, 2>>}, t \in {"zero1", "zeros"}}
  \cup {Cfg(p, "func", s, <<>>, <<>>, 0, NoAx, FALSE, 0, 0, <<>>, "big", "rr", "array", NA) : p \in SpecialBig \ {"logaddexp", "logaddexp2"}, s \in {<<4>>}}
  \cup {Cfg(p, "func", <<4>>, <<4>>, <<>>, n, NoAx, FALSE, 0, 0, <<>>, t, "rr", "array", NA) : p \in {"logaddexp", "logaddexp2"}, n \in {0, 1},
           t \in {"big", "huge"}}      \* "huge": both operands near +-1100 (log-probabilities: exp and 2** of either overflow or vanish, the function is smooth)
  \* x ** e at x = 0 for e in {0, 1, 2, 3} as int and as float (ib = 1), e ** x at e = 0 is a kink and left out
  \cup {Cfg("power", f, s, <<>>, <<>>, 0, NoAx, FALSE, e, fl, <<>>, t, "rr", "array", NA) : f \in {"func", "op"}, s \in {<<3>>}, e \in 0..3, fl \in {0, 1}, t \in {"zero1", "zeros"}}
  \* binary, one operand with zero entries, the other generic
  \cup {Cfg(p, "func", s, s, <<>>, n, NoAx, FALSE, w, 0, <<>>, "zero1", "rr", "array", NA) :
          p \in {"multiply", "add", "subtract", "divide", "arctan2", "hypot", "maximum", "minimum", "logaddexp", "mod", "true_divide", "power"},
          s \in {<<3>>}, n \in {0, 1}, w \in {0, 1}}          \* w = which operand holds the zero (divide / mod: only the numerator)
  \* reductions and contractions with zero entries
  \cup {Cfg(p, "func", s, <<>>, <<>>, 0, ax, kd, 0, 0, <<>>, t, "rr", "array", NA) :
          p \in {"prod", "sum", "mean", "var", "max", "min", "cumsum"}, s \in {<<3>>, <<2, 3>>}, ax \in {NoAx, AxInt(0), AxInt(-1)}, kd \in {FALSE},
          t \in {"zero1", "zero2", "zeros"}}
  \cup {Cfg(p, "func", a, b, <<>>, n, NoAx, FALSE, 0, 0, <<>>, t, "rr", "array", NA) :
          p \in {"dot", "matmul", "inner", "outer", "kron", "tensordot"}, a \in {<<3>>, <<2, 3>>}, b \in {<<3>>, <<3, 2>>}, n \in {0, 1}, t \in {"zero1", "zeros"}}

\* ---------------------------------------------------------------- a REAL value placed, unmultiplied, into a COMPLEX array (C09, C05)
\* f(x) = join((pre(x), C))  with C complex: the result is complex, so a complex cotangent travels back through the join and - for
\* pre = an index expression - into the scatter buffer of a real array; the gradient of the real x must be real (its real projection).
\* ia = pre: 0 the value itself, 1 x[identity permutation as an integer array] (ufunc.at path), 2 x[::1]; argnum = position of x in the pair
RealIntoFamily(z) ==
  {Cfg(p, "func", s, <<>>, <<>>, pos, NoAx, FALSE, pre, 0, <<>>, st, "rc", "array", NA) :
      p \in {"concatenate", "stack", "hstack", "vstack", "array", "append", "column_stack"}, s \in {<<3>>, <<2, 3>>}, pos \in {0, 1}, pre \in 0..2,
      st \in {"list", "tuple"}}

\* ---------------------------------------------------------------- arrays with no entries (C05 / C01: structure of the results; nothing to compare entry-wise)
\* shapes (0,), (0,3), (2,0); the argument, the other operand or the result is empty.  ia selects a variant per primitive.
EmptyShapes == {<<0>>, <<0, 3>>, <<2, 0>>}
EmptyFamily(z) ==
  {Cfg(p, "func", s, <<>>, <<>>, 0, ax, kd, 0, 0, <<>>, "-", "rr", "array", NA) :
      p \in {"sum", "prod", "cumsum", "mean_nonempty_axis", "max_nonempty_axis"}, s \in EmptyShapes, ax \in {NoAx, AxInt(0), AxInt(-1)}, kd \in BOOLEAN}
  \cup {Cfg(p, "func", s, <<>>, <<>>, 0, NoAx, FALSE, v, 0, <<>>, "-", "rr", "array", NA) :
      p \in {"reshape", "transpose", "ravel", "negative", "exp", "multiply", "add", "concatenate", "stack", "getitem_empty", "dot", "outer", "where", "sort", "flip",
              "expand_dims", "squeeze", "tile", "repeat", "pad", "broadcast_to", "diag", "trace", "matmul", "tensordot", "einsum", "kron", "clip", "abs", "sqrt"},
      s \in EmptyShapes, v \in 0..1}

\* ---------------------------------------------------------------- single precision (float32 / complex64 operands)
\* The differentiated operand is a float32 / complex64 array (scal = "single"); everything else as in the binary / contract / where
\* families.  What is under test is the CLASSIFICATION of the operand (real vs complex, its shape) by the helpers the rules share -
\* entries are compared at single-precision tolerance (2^-10 relative) against the double-precision NumPy Jacobian.
SingleFamily(z) ==
  {[c EXCEPT !.scal = "single"] :
      c \in {cc \in BinaryFamily(0) \cup ContractFamily(0) \cup WhereFamily(0) :
                /\ cc.scal = "array" /\ cc.s # <<>>
                /\ cc.prim \in {"add", "subtract", "multiply", "divide", "matmul", "dot", "einsum", "where", "inner", "outer", "tensordot"}
                /\ Len(cc.s) <= 2 /\ Len(cc.s2) <= 2}}

Space == CASE Family = "binary" -> BinaryFamily(0)
           [] Family = "single" -> SingleFamily(0)
           [] Family = "empty" -> EmptyFamily(0)
           [] Family = "realinto" -> RealIntoFamily(0)
           [] Family = "special" -> SpecialFamily(0)
           [] Family = "extend" -> ExtendFamily(0)
           [] Family = "where" -> WhereFamily(0)
           [] Family = "reduce" -> ReduceFamily(0)
           [] Family = "cum" -> CumFamily(0)
           [] Family = "unary" -> UnaryFamily(0)
           [] Family = "rearr" -> RearrFamily(0)
           [] Family = "join" -> JoinFamily(0)
           [] Family = "kink" -> KinkFamily(0)
           [] Family = "helper" -> HelperFamily(0)
           [] Family = "argsweep" -> ArgSweepFamily(0)
           [] Family = "linalg" -> LinalgFamily(0)
           [] Family = "fft" -> FftFamily(0)
           [] Family = "index" -> {c \in IndexFamily(0) : SumConsumes(c.tp, 1) <= Len(c.s) /\ Cardinality({i \in DOMAIN c.tp : c.tp[i].t = "ell"}) <= 1} \cup ZeroDIndex
           [] Family = "seltuple" -> SelTupleFamily(0)
           \* C11, second clause at the rule level: an index expression on a 2-D array combined with two DENSE uses of the same array, for
           \* every position of the indexed term among the three (ib = 0 first, 1 middle, 2 last) and three kinds of dense use (ia = 0 plain,
           \* 1 through transposes - cotangents arrive as non-contiguous views -, 2 through reshape)
           [] Family = "mixorder" -> {[c EXCEPT !.prim = "getitem_mix", !.ia = d[1], !.ib = d[2]] :
                                        c \in {cc \in IndexFamily(0) : Len(cc.s) = 2 /\ SumConsumes(cc.tp, 1) <= Len(cc.s)
                                                                        /\ Cardinality({i \in DOMAIN cc.tp : cc.tp[i].t = "ell"}) <= 1},
                                        d \in (0..2) \X (0..2)}
           [] Family = "contract" -> ContractFamily(0)
           [] Family = "scipy" -> ScipyFamily(0)

VARIABLES cfg, emitted
Init == cfg \in Space /\ emitted = FALSE
Next == ~emitted /\ emitted' = TRUE /\ UNCHANGED cfg /\ PrintT(ToJson(cfg))
Spec == Init /\ [][Next]_<<cfg, emitted>>
=============================================================================
