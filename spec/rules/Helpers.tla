------------------------------- MODULE Helpers -------------------------------
(* Index-level semantics of broadcasting and of sum-reduction on tiny tensors, and transcriptions of the shared helper
   algorithms that ~60 derivative rules of autograd are built on:

     numpy_vjps.unbroadcast            (sum the leading axes, then the size-1 axes with keepdims)
     numpy_jvps.broadcast              (prepend axes, then repeat the size-1 axes)
     numpy_vjps.repeat_to_match_shape  (reshape to the keepdims shape, then broadcast against zeros)

   A tensor of shape s is a function from Indices(s) (tuples of 1-based indices) to integers.
   Lemmas (checked exhaustively by TLC for every shape of rank <= 3 with dimensions in {1,2,3}, MCHelpers.tla):
     UnbroadcastIsAdjoint   unbroadcast(G, t)        = B^T G      where B : tensor(t) -> tensor(r) is NumPy broadcasting
     BroadcastIsForward     broadcast(X, r)          = B X
     RepeatIsAdjointOfSum   repeat_to_match_shape(g) = S^T g      where S = sum over the axes (any int / tuple / None axis, negative
                                                                  members, keepdims or not)
   so a rule that is "f' composed with these helpers" handles every broadcasting / reduction configuration, and the rules that do
   NOT go through them (where, cross, outer, full, ... before the fixes) are exactly where the shape defects were found.
   The same cases are replayed on the real helper functions and judged by TLC (TraceHelpers.tla). *)
EXTENDS Shape, TLC

Indices(s) == {i \in [1..Len(s) -> 1..3] : \A k \in 1..Len(s) : i[k] <= s[k]}
\* a generic integer tensor: distinct, position-dependent entries
Gen(s, salt) == [i \in Indices(s) |-> LET F[k \in 0..Len(s)] == IF k = 0 THEN salt ELSE F[k-1] * 4 + i[k] IN F[Len(s)]]

SumOverSet(S, f(_)) == LET RECURSIVE Go(_)
                           Go(T) == IF T = {} THEN 0 ELSE LET x == CHOOSE x \in T : TRUE IN f(x) + Go(T \ {x})
                       IN Go(S)

\* ---------------------------------------------------------------- NumPy broadcasting as an index map  r-index -> t-index
BIdx(i, r, t) == LET off == Len(r) - Len(t) IN [k \in 1..Len(t) |-> IF t[k] = 1 THEN 1 ELSE i[k + off]]
BroadcastMap(X, t, r) == [i \in Indices(r) |-> X[BIdx(i, r, t)]]                                       \* B X
AdjBroadcast(G, r, t) == [j \in Indices(t) |-> SumOverSet({i \in Indices(r) : BIdx(i, r, t) = j}, LAMBDA i : G[i])]   \* B^T G

\* ---------------------------------------------------------------- sum over one axis (1-based), with / without keepdims
DropAxis(s, ax) == [k \in 1..(Len(s) - 1) |-> IF k < ax THEN s[k] ELSE s[k + 1]]
KeepAxis(s, ax) == [s EXCEPT ![ax] = 1]
SumAxis(G, s, ax, keep) ==
  IF keep THEN [j \in Indices(KeepAxis(s, ax)) |-> SumOverSet(1..s[ax], LAMBDA v : G[[j EXCEPT ![ax] = v]])]
  ELSE [j \in Indices(DropAxis(s, ax)) |->
          SumOverSet(1..s[ax], LAMBDA v : G[[k \in 1..Len(s) |-> IF k < ax THEN j[k] ELSE IF k = ax THEN v ELSE j[k - 1]]])]

\* ---------------------------------------------------------------- numpy_vjps.unbroadcast, transcribed
\*   while ndim(x) > target_ndim: x = sum(x, axis=0)
\*   for axis, size in enumerate(target_shape): if size == 1: x = sum(x, axis=axis, keepdims=True)
RECURSIVE DropLeading(_, _, _)
DropLeading(G, s, n) == IF Len(s) <= n THEN [g |-> G, s |-> s] ELSE DropLeading(SumAxis(G, s, 1, FALSE), DropAxis(s, 1), n)
Unbroadcast(G, r, t) ==
  LET d == DropLeading(G, r, Len(t))
      F[k \in 0..Len(t)] == IF k = 0 THEN d
                            ELSE IF t[k] = 1 THEN [g |-> SumAxis(F[k-1].g, F[k-1].s, k, TRUE), s |-> KeepAxis(F[k-1].s, k)]
                            ELSE F[k-1]
  IN F[Len(t)]

\* ---------------------------------------------------------------- numpy_jvps.broadcast, transcribed
\*   while ndim(x) < target_ndim: x = expand_dims(x, 0)
\*   for axis, size in enumerate(shape(x)): if size == 1: x = repeat(x, target_shape[axis], axis=axis)
PadLeading(s, n) == [k \in 1..n |-> IF k <= n - Len(s) THEN 1 ELSE s[k - (n - Len(s))]]
ForwardBroadcast(X, t, r) ==
  LET n == Len(r)
      tp == PadLeading(t, n)
      X0 == [i \in Indices(tp) |-> X[[k \in 1..Len(t) |-> i[k + n - Len(t)]]]]
      F[k \in 0..n] == IF k = 0 THEN [g |-> X0, s |-> tp]
                       ELSE IF tp[k] = 1
                              THEN [g |-> [i \in Indices([F[k-1].s EXCEPT ![k] = r[k]]) |-> F[k-1].g[[i EXCEPT ![k] = 1]]], s |-> [F[k-1].s EXCEPT ![k] = r[k]]]
                              ELSE F[k-1]
  IN F[n]

\* ---------------------------------------------------------------- sum over a set of axes and its adjoint; repeat_to_match_shape transcribed
\* reduced index of i: axes in `red` (0-based set) are dropped (or set to 1 with keepdims)
RedIdx(i, s, red, keep) ==
  LET kept == {k \in 1..Len(s) : (k - 1) \notin red}
      pos(k) == Cardinality({q \in kept : q <= k})
  IN IF keep THEN [k \in 1..Len(s) |-> IF (k - 1) \in red THEN 1 ELSE i[k]]
     ELSE [q \in 1..Cardinality(kept) |-> i[CHOOSE k \in kept : pos(k) = q]]
AdjSum(g, s, ax, keep) == [i \in Indices(s) |-> g[RedIdx(i, s, AxisSet(ax, Len(s)), keep)]]        \* S^T g
\*   new_shape = array(shape); new_shape[axis] = 1        (NumPy fancy assignment: negative members count from the end, None = all)
\*   return reshape(g, new_shape) + zeros(shape)
\* reshape from ReduceShape(s, ax, keepdims) to the all-ones-on-axes shape preserves row-major order: entry q of the flattened g
RowMajorPos(j, s) == LET F[k \in 0..Len(s)] == IF k = 0 THEN 0 ELSE F[k-1] * s[k] + (j[k] - 1) IN F[Len(s)] + 1
FlatOf(T, s) == [q \in 1..Size(s) |-> T[CHOOSE j \in Indices(s) : RowMajorPos(j, s) = q]]
RepeatToMatchShape(g, s, ax, keep) ==
  LET red == AxisSet(ax, Len(s))
      ns == [k \in 1..Len(s) |-> IF (k - 1) \in red THEN 1 ELSE s[k]]
      gs == ReduceShape(s, ax, keep)
      gflat == FlatOf(g, gs)
      reshaped == [j \in Indices(ns) |-> gflat[RowMajorPos(j, ns)]]
  IN [i \in Indices(s) |-> reshaped[[k \in 1..Len(s) |-> IF ns[k] = 1 THEN 1 ELSE i[k]]]]

\* ---------------------------------------------------------------- the lemmas
UnbroadcastIsAdjoint(t, r) == LET G == Gen(r, 1) u == Unbroadcast(G, r, t) IN u.s = t /\ u.g = AdjBroadcast(G, r, t)
BroadcastIsForward(t, r) == LET X == Gen(t, 2) b == ForwardBroadcast(X, t, r) IN b.s = r /\ b.g = BroadcastMap(X, t, r)
RepeatIsAdjointOfSum(s, ax, keep) == LET g == Gen(ReduceShape(s, ax, keep), 3) IN RepeatToMatchShape(g, s, ax, keep) = AdjSum(g, s, ax, keep)
=============================================================================
