------------------------------ MODULE MCHelpers ------------------------------
EXTENDS Helpers, Json
CONSTANTS MaxR, Export
VARIABLES kind, t, r, ax, keep, emitted
vars == <<kind, t, r, ax, keep, emitted>>
\* pairs (t, r): t broadcasts to r
Pairs == {p \in Shapes(MaxR) \X Shapes(MaxR) : Len(p[1]) <= Len(p[2]) /\ BroadcastOK(p[1], p[2]) /\ Broadcast(p[1], p[2]) = p[2]}
Init == \/ /\ kind \in {"unbroadcast", "broadcast"} /\ \E p \in Pairs : t = p[1] /\ r = p[2]
           /\ ax = [k |-> "none"] /\ keep = FALSE /\ emitted = FALSE
        \/ /\ kind = "repeat" /\ t \in Shapes(MaxR) /\ r = t /\ ax \in AxisChoices(Len(t)) /\ keep \in BOOLEAN /\ emitted = FALSE
Flat(T, s) == FlatOf(T, s)
Next == /\ ~emitted /\ emitted' = TRUE /\ UNCHANGED <<kind, t, r, ax, keep>>
        /\ (Export => PrintT(ToJson([kind |-> kind, t |-> t, r |-> r, ax |-> ax, keep |-> keep,
                                      input |-> CASE kind = "unbroadcast" -> Flat(Gen(r, 1), r)
                                                  [] kind = "broadcast" -> Flat(Gen(t, 2), t)
                                                  [] OTHER -> Flat(Gen(ReduceShape(t, ax, keep), 3), ReduceShape(t, ax, keep)),
                                      want |-> CASE kind = "unbroadcast" -> Flat(AdjBroadcast(Gen(r, 1), r, t), t)
                                                 [] kind = "broadcast" -> Flat(BroadcastMap(Gen(t, 2), t, r), r)
                                                 [] OTHER -> Flat(AdjSum(Gen(ReduceShape(t, ax, keep), 3), t, ax, keep), t)])))
Spec == Init /\ [][Next]_vars
Lemmas == CASE kind = "unbroadcast" -> UnbroadcastIsAdjoint(t, r)
            [] kind = "broadcast" -> BroadcastIsForward(t, r)
            [] kind = "repeat" -> RepeatIsAdjointOfSum(t, ax, keep)
=============================================================================
