------------------------------- MODULE Contract -------------------------------
(* The contract every call configuration must satisfy, stated over a recorded observation o (see harness/rule_replay.py).

   W = realified Jacobian of the plain NumPy function at the point (the oracle), R = reverse-mode matrix with rows
   conj(vjp(conj g)) over the cotangent basis, F = forward-mode matrix with columns jvp(v) over the tangent basis.
   The harness logs the integer matrices  D = round((A - W) / max(1, |W|) * 2^20)  by their non-zero entries:
   o.vjp_nbad = number of non-zero entries of D_R, o.jvp_nbad likewise for F, o.adj_nbad = number of entries where R and F
   differ by more than 1e-11 (oracle-free), o.lin_* = entries violating linearity.  Structures are (shape, kind, dtype). *)
EXTENDS Integers, Sequences

DefaultPrecision(dt) == dt \in {"float64", "complex128"}

\* C01 / C09 (reverse half): R = conj(W_R^T conj g) on the whole basis, or the call raised
\* ("for all cotangents": the VJP function obtained once must work for, and give the same answer on, every later cotangent)
RevExact(o) == o.vjp_raised \/ (o.vjp_nbad = 0 /\ ~o.vjp_late)
\* C02 / C09 (forward half): F = W_R v on the whole basis with the structure of the output, or the call raised
FwdExact(o) == o.jvp_raised \/ (o.jvp_nbad = 0 /\ o.jvp_shape = o.out_shape /\ o.jvp_kind = o.out_kind)
\* C04: <g, JVP v> = <cov VJP(cov g), v> on the basis, and both maps linear - wherever both modes are defined
\* (results of the wrong structure cannot be paired at all: that is C05's finding, not C04's)
\* linear also as *traced* functions at the origin: d/dg vjp(g) at g = 0 is vjp, d/dv jvp(v) at v = 0 is jvp
LinearAtZero(o) == o.lin0_vjp = 0 /\ o.lin0_jvp = 0
Adjoint(o) == /\ (~o.vjp_raised /\ ~o.jvp_raised /\ o.vjp_shape = o.in_shape /\ o.jvp_shape = o.out_shape)
                    => (o.adj_checked /\ o.adj_nbad = 0 /\ o.lin_vjp = 0 /\ o.lin_jvp = 0 /\ LinearAtZero(o))
              \* through the linear functional G = sum o f (pairs whatever shapes the two modes produce): <1, JVP_G v> = <VJP_G 1, v>
              /\ (~o.vjp_raised /\ ~o.jvp_raised) => o.sum_pair_bad = 0
\* C10 per configuration: the VJP function is reusable and the caller's arrays are intact
Reusable(o) == ~o.vjp_raised => (~o.vjp_late /\ o.intact)
\* C05: a VJP result has exactly the structure of the argument; a JVP result that of the output
GradInArgSpace(o) ==
  /\ ~o.vjp_raised => /\ o.vjp_shape = o.in_shape
                      /\ o.vjp_kind = o.in_kind
                      /\ (DefaultPrecision(o.in_dtype) => o.vjp_dtype = o.in_dtype)
  /\ ~o.jvp_raised => /\ o.jvp_shape = o.out_shape
                      /\ o.jvp_kind = o.out_kind
\* C06: primal identical to plain NumPy under reverse, forward and nested differentiation; no tracer handed back; inputs intact
Transparent(o) ==
  /\ ~o.vjp_raised => o.vjp_primal_eq
  /\ ~o.jvp_raised => o.jvp_primal_eq
  /\ ~o.box
  /\ o.intact
  /\ o.nest_eq
  /\ o.raw_eq          \* the un-traced call (plain arguments) returns what numpy itself returns for the same call
\* the spec's own shape calculus agrees with NumPy (a disagreement is a specification error, not a violation)
ShapeCalcOK(o) == o.oshape_spec = <<-1>> \/ o.oshape_spec = o.out_shape

\* C07 per configuration: the Hessian-vector products computed by reverse-over-reverse, forward-over-reverse, reverse-over-forward
\* and forward-over-forward agree (1e-9), the Hessian is symmetric, and they equal the derivative of the first-order gradient
SecondOrder(o) == /\ LinearAtZero(o)
                  /\ o.second_checked => (o.second_nbad = 0 /\ o.second_sym_bad = 0 /\ o.second_num_bad = 0 /\ ~o.second_box)

Holds(prop, o) == CASE prop = "C01" -> RevExact(o)
                    [] prop = "C03" -> RevExact(o) /\ FwdExact(o)   \* gathers with repeated entries: the sum over the multi-edges of one operation
                    [] prop = "C02" -> FwdExact(o)
                    [] prop = "C04" -> Adjoint(o)
                    [] prop = "C05" -> GradInArgSpace(o)
                    [] prop = "C06" -> Transparent(o)
                    [] prop = "C07" -> SecondOrder(o)
                    [] prop = "C09" -> RevExact(o) /\ FwdExact(o) /\ o.ops_bad = 0    \* ops_bad: jacobian() / grad() of the configuration are the rows of its VJP
                    \* C11 / C12 state that indexing propagates derivatives exactly - unlike C01 they leave no room for "or the call raises"
                    [] prop = "C11" -> RevExact(o) /\ FwdExact(o) /\ ~o.vjp_raised /\ ~o.jvp_raised
                    [] prop = "C12" -> RevExact(o) /\ ~o.vjp_raised
                    [] prop = "C10" -> Reusable(o)
                    [] prop = "C08" -> LinearAtZero(o)
                    \* C14 / C17 on the `extend` and `where` families: a derivative declared zero (None) is an exact zero *in the argument's space*
                    \* (in the extend family every requested derivative has a registered rule or a registered None: raising is not "unsupported")
                    [] prop \in {"C14", "C17"} -> RevExact(o) /\ FwdExact(o) /\ GradInArgSpace(o) /\ (o.fam = "extend" => (~o.vjp_raised /\ ~o.jvp_raised))
=============================================================================
