------------------------------ MODULE MCFwdImpl ------------------------------
EXTENDS FwdImpl
CONSTANTS NN, MaxAr, WithConst, KindMode
Kinds == {"alias", "fresh"}
V == {1, 3}
Init == IInit(DagSet(NN, MaxAr, Kinds, WithConst, KindMode), V)
Spec == Init /\ [][INext]_ivars
\* refinement of the abstract forward pass (the initial condition restated without re-enumerating the graph space)
AbsInit == /\ reach = ReachOf(args) /\ v0 \in V /\ fapplied = {} /\ tan = [n \in NodesOf(args) |-> IF n = 1 THEN v0 ELSE 0] /\ ~fret /\ fres = 0
AbsSpec == AbsInit /\ [][FNext]_fvars
=============================================================================
