------------------------------- MODULE AGMDen -------------------------------
(* Denotational meaning of an AGM program, independent of tracing: every register holds a polynomial in the
   variables of the enclosing differentiations (one variable per nesting level), `diff` differentiates that
   polynomial symbolically, substitutes the point and multiplies by the seed.  Modes do not occur: forward and
   reverse must agree with this single meaning (C04/C07), nesting cannot confuse variables (C08), and a
   program's meaning does not depend on what ran before it (C19).

   A denotational value is [p, taint, poison]:
     taint   upper bound of the levels the value syntactically depends on (carries a tracer of)
     poison  the value flowed through a `bomb` (a primitive whose derivative rules raise): its derivatives are
             outside the scope of this oracle
   Outcomes of a body: "val" | "raise" | "unknown" (oracle declines: depends on bombs or on the exact tracer structure). *)
EXTENDS Poly

DV(p, taint, poison) == [p |-> p, taint |-> taint, poison |-> poison]
OutVal(v) == [o |-> "val", v |-> v]
OutRaise == [o |-> "raise"]
OutUnknown == [o |-> "unknown"]
DFallback == -5

RECURSIVE DenRun(_, _, _, _, _, _, _)
DenRun(pr, b, pc, chain, level, vals, modes) ==
  LET ins == pr.bodies[b][pc]
      get(ref) == IF ref.up = -1 THEN DV(PConst(ref.r), {}, FALSE) ELSE chain[Len(chain) - ref.up][ref.r]
      cont(v) == DenRun(pr, b, pc + 1, [chain EXCEPT ![Len(chain)] = Append(@, v)], level, vals, modes)
      nested(bb) == DenRun(pr, bb, 1, Append(chain, <<>>), level, vals, modes)
  IN
  CASE ins.op = "ret" -> OutVal(get(ins.a))
    [] ins.op = "raise" -> OutRaise
    [] ins.op = "prim" ->
         LET a == [i \in DOMAIN ins.a |-> get(ins.a[i])]
             tn == UNION {a[i].taint : i \in DOMAIN a}
             po == \E i \in DOMAIN a : a[i].poison
         IN (CASE ins.p = "add" -> cont(DV(PAdd(a[1].p, a[2].p), tn, po))
              [] ins.p = "mul" -> cont(DV(PMul(a[1].p, a[2].p), tn, po))
              [] ins.p = "neg" -> cont(DV(PNeg(a[1].p), tn, po))
              [] ins.p = "take" -> cont(DV(a[1].p, tn, po))
              [] ins.p = "nd"  -> cont(DV(PConst(PEval(a[1].p, vals)), {}, po))
              [] ins.p = "user" ->
                   \* product primitive with a registered rule table: a missing rule for a traced argument raises; an argument
                   \* registered as non-differentiable (None) is a constant for the differentiation (first order only)
                   IF \E i \in DOMAIN a : pr.utable[i] = "missing" /\ a[i].taint # {} THEN OutRaise
                   ELSE IF \E i \in DOMAIN a : pr.utable[i] = "zero" /\ a[i].taint # {} /\ level > 1 THEN OutUnknown
                   ELSE LET F[i \in 0..Len(a)] ==
                              IF i = 0 THEN PConst(pr.uscale)
                              ELSE PMul(F[i-1], IF pr.utable[i] = "zero" THEN PConst(PEval(a[i].p, vals)) ELSE a[i].p)
                            tn2 == UNION {a[i].taint : i \in {j \in DOMAIN a : pr.utable[j] # "zero"}}
                        IN cont(DV(F[Len(a)], tn2, po))
              [] ins.p = "bomb" -> IF tn = {} THEN cont(a[1])
                                   ELSE IF \E l \in tn : modes[l] = "jvp" THEN OutUnknown
                                   ELSE cont(DV(a[1].p, tn, TRUE)))
    [] ins.op = "call" -> LET r == nested(ins.b) IN IF r.o = "val" THEN cont(r.v) ELSE r
    [] ins.op = "ckpt" -> LET r == DenRun(pr, ins.b, 1, Append(chain, [i \in DOMAIN ins.a |-> get(ins.a[i])]), level, vals, modes)
                          IN IF r.o = "val" THEN cont(r.v) ELSE r
    [] ins.op = "try" -> LET r == nested(ins.b) IN
                         IF r.o = "val" THEN cont(r.v)
                         ELSE IF r.o = "raise" THEN cont(DV(PConst(DFallback), {}, FALSE))
                         ELSE cont(DV(PZero, {}, TRUE))
    [] ins.op = "if" -> LET c == get(ins.c) IN
                        IF c.poison THEN OutUnknown
                        ELSE LET r == nested(IF PEval(c.p, vals) > 0 THEN ins.bt ELSE ins.bf)
                             IN IF r.o = "val" THEN cont(r.v) ELSE r
    [] ins.op = "diff" ->
         LET at == get(ins.at)
             seed == get(ins.seed)
             L == level + 1
             inner == DenRun(pr, ins.b, 1, Append(chain, <<DV(PVar(L), {L}, FALSE)>>), L,
                             [vals EXCEPT ![L] = PEval(at.p, vals)], [modes EXCEPT ![L] = ins.mode])
         IN IF at.poison \/ seed.poison THEN OutUnknown
            ELSE IF inner.o # "val" THEN inner
            ELSE IF inner.v.poison THEN OutUnknown
            ELSE LET q == inner.v.p
                     depPoly == Mentions(q, L)
                     depUpper == L \in inner.v.taint
                     d == PMul(PSubst(PDeriv(q, L), L, at.p), seed.p)
                 IN IF pr.warnerr /\ ~depPoly
                      THEN (IF depUpper THEN OutUnknown ELSE OutRaise)
                      ELSE IF ~depUpper THEN cont(DV(PZero, {}, FALSE))
                      ELSE cont(DV(d, at.taint \cup seed.taint \cup (inner.v.taint \ {L}), FALSE))

\* meaning of thread th of program pr:  [k |-> "val", v |-> Int] | [k |-> "exc"] | [k |-> "unknown"]
Den(pr, th) ==
  LET r == DenRun(pr, pr.threads[th].main, 1, << <<DV(PConst(pr.threads[th].input), {}, FALSE)>> >>, 0,
                  [i \in 1..NV |-> 0], [i \in 1..NV |-> "none"])
  IN IF r.o = "raise" THEN [k |-> "exc"]
     ELSE IF r.o = "unknown" \/ r.v.poison \/ ~IsConst(r.v.p) THEN [k |-> "unknown"]
     ELSE [k |-> "val", v |-> ConstOf(r.v.p)]
=============================================================================
