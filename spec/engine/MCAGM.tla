-------------------------------- MODULE MCAGM --------------------------------
EXTENDS AGM, AGMDen, AGMProgs, Json
CONSTANTS Family, Depth, Export
Programs == CASE Family = "nest" -> NestFamily(Depth, {2})
              [] Family = "nestq" -> NestFamilyQ(Depth, {2})
              [] Family = "fault" -> FaultFamily({2, 3})
              [] Family = "ctrl" -> CtrlFamily({2, 5})
              [] Family = "nd" -> NdFamily({2, 3})
              [] Family = "ho" -> HoFamily(Depth, {2, 3})
              [] Family = "mix" -> MixFamily(Depth)
              [] Family = "ext1" -> Ext1Family(Depth, {2})
              [] Family = "ext2" -> Ext2Family(Depth, {2})
              [] Family = "ckpt" -> CkptFamily({2, 3})
              [] Family = "threads2" -> ThreadFamily2
              [] Family = "threads2small" -> ThreadFamily2Small
              [] Family = "threads2med" -> ThreadFamily2Med
              [] Family = "threads3" -> ThreadFamily3
VARIABLES emitted,
          sched      \* history: which thread took each step (the schedule handed to the baton scheduler of the replay)
Init == MInit(Programs)
Done == \A th \in Threads : result[th].k # "none"
\* at the end of a behaviour the program, the model's result and the trace ids it handed out are exported for the replay
Emit == /\ Done /\ Export
        /\ PrintT(ToJson([prog |-> prog, result |-> [th \in Threads |-> IF result[th].k = "val" THEN [k |-> "val", v |-> Plain(result[th].v)] ELSE result[th]],
                          log |-> log, den |-> [th \in Threads |-> Den(prog, th)], sched |-> sched]))
        /\ UNCHANGED vars
Next == \/ (\E th \in Threads : Step(th) /\ sched' = Append(sched, th) /\ emitted' = emitted)
        \/ (~emitted /\ Emit /\ emitted' = TRUE /\ sched' = sched)
Spec == Init /\ emitted = FALSE /\ sched = <<>> /\ [][Next]_<<vars, emitted, sched>>
\* exhaustive interleaving checks do not care how a state was reached
NoSched == <<vars, emitted>>

\* C07 / C08 / C14 / C19: the machine's result is the program's denotational meaning
ResultIsDen == \A th \in Threads : result[th].k # "none" =>
                 LET d == Den(prog, th) IN
                 \/ d.k = "unknown"
                 \/ (d.k = "exc" /\ result[th].k = "exc")
                 \/ (d.k = "val" /\ result[th].k = "val" /\ Plain(result[th].v) = d.v)
=============================================================================
