------------------------------- MODULE RevImpl -------------------------------
(* Implementation-shaped model of autograd's reverse pass on the pinned tree:

     util.toposort          (explicit DFS stack with PER-EDGE child counting; generator: the decrement loop of a
                             node runs after the loop body that consumed it)
     core.backward_pass     (outgrads dict of (cotangent, mutable) pairs; pop; node.vjp; zip(parents, ingrads))
     core.add_outgrads      (the four-way ownership protocol; sparse_add; vs.add / vs.mut_add / mut_add(None, x))

   Cotangent values live in a heap of buffers with an owner ("user" = memory handed in by or handed out to the
   caller, "ag" = allocated by autograd during this pass) so that writes to memory autograd does not own are visible.
   Switches (constants) select deliberately broken variants used as model mutants / vacuity guards:
     CountPerNode        toposort counts consumers per node instead of per edge
     FirstMutable        add_outgrads marks the first dense contribution as owned
     MutAddNoneAliases   mut_add(None, x) returns x itself instead of a fresh copy
   With all switches FALSE the module refines RevAbs (see Abs below). *)
EXTENDS Dags, TLC

CONSTANTS CountPerNode, FirstMutable, MutAddNoneAliases

VARIABLES args, live, g0, results, returned, ncalls,  \* as in RevAbs
          phase,     \* "count" | "sort"
          stack,     \* toposort phase-1 DFS stack / phase-2 childless stack
          cc,        \* child_counts: [node -> Nat], 0 = absent from the dict
          out,       \* outgrads: [node -> [buf, mut]] ; buf = 0: absent
          heap,      \* sequence of buffers [val, owner]
          gbuf,      \* buffer holding the caller's cotangent for this call
          called,    \* [node -> Nat]: how often node.vjp has been applied in this call
          gAt,       \* [node -> Int]: the cotangent value node.vjp was applied to (history)
          pend,      \* ingrads of the node being processed, not yet added: Seq([p, buf, sparse, val])
          cur,       \* node whose toposort decrement loop is still due (0 = none)
          wrotebad,  \* some in-place write hit a buffer not exclusively owned by autograd
          crashed,   \* outgrads.pop(node) found no entry (KeyError in the real code)
          lastbuf    \* buffer of the most recently popped outgrad (backward_pass returns outgrad[0] after the loop)
ivars == <<args, live, g0, results, returned, ncalls, phase, stack, cc, out, heap, gbuf, called, gAt, pend, cur, wrotebad, crashed, lastbuf>>

Out == Len(args)
NoG == [buf |-> 0, mut |-> FALSE]
Parents(k) == [j \in DOMAIN args[k] |-> args[k][j].p]          \* node.parents, with 0 for constants
RealSlots(k) == {j \in DOMAIN args[k] : args[k][j].p > 0}
\* node.parents as recorded by the primitive wrapper: boxed args only, in argument order
RECURSIVE ParentSeq(_, _)
ParentSeq(k, j) == IF j > Len(args[k]) THEN <<>>
                   ELSE IF args[k][j].p > 0 THEN <<j>> \o ParentSeq(k, j + 1) ELSE ParentSeq(k, j + 1)

StartCall(g, h) ==
  /\ g0 = g
  /\ heap = Append(h, [val |-> g, owner |-> "user"])
  /\ gbuf = Len(h) + 1
  /\ phase = "count" /\ stack = <<Out>>
  /\ cc = [k \in NodesOf(args) |-> 0]
  /\ out = [k \in NodesOf(args) |-> IF k = Out THEN [buf |-> Len(h) + 1, mut |-> FALSE] ELSE NoG]
  /\ called = [k \in NodesOf(args) |-> 0]
  /\ gAt = [k \in NodesOf(args) |-> 0]
  /\ pend = <<>> /\ cur = 0 /\ returned = FALSE /\ lastbuf = 0

IInit(graphs, G) ==
  /\ args \in graphs
  /\ live = LiveOf(args)
  /\ results = <<>> /\ wrotebad = FALSE /\ ncalls = 1 /\ crashed = FALSE
  /\ \E g \in G : StartCall(g, <<>>)

\* ---------------------------------------------------------------- util.toposort, first loop
Count ==
  /\ phase = "count" /\ stack # <<>>
  /\ LET node == stack[Len(stack)]
         rest == SubSeq(stack, 1, Len(stack) - 1)
         ps == [i \in 1..Len(ParentSeq(node, 1)) |-> args[node][ParentSeq(node, 1)[i]].p]
         \* mutant: visiting each distinct parent once = per-node counting
         psn == IF CountPerNode THEN LET S == {ps[i] : i \in DOMAIN ps}
                                         F[i \in 0..Len(ps)] == IF i = 0 THEN <<>>
                                              ELSE IF \E j \in 1..(i-1) : ps[j] = ps[i] THEN F[i-1] ELSE Append(F[i-1], ps[i])
                                     IN F[Len(ps)]
                ELSE ps
     IN IF cc[node] > 0
          THEN /\ cc' = [cc EXCEPT ![node] = @ + 1] /\ stack' = rest
          ELSE /\ cc' = [cc EXCEPT ![node] = 1] /\ stack' = rest \o psn
  /\ UNCHANGED <<args, live, g0, results, returned, ncalls, phase, out, heap, gbuf, called, gAt, pend, cur, wrotebad, crashed, lastbuf>>

CountDone ==
  /\ phase = "count" /\ stack = <<>>
  /\ phase' = "sort" /\ stack' = <<Out>>
  /\ UNCHANGED <<args, live, g0, results, returned, ncalls, cc, out, heap, gbuf, called, gAt, pend, cur, wrotebad, crashed, lastbuf>>

\* ---------------------------------------------------------------- backward_pass loop body: pop, node.vjp(g)
\* the rule of slot j hands back: alias -> the buffer of g itself; fresh / sparse -> a new value w * g
Pop ==
  /\ phase = "sort" /\ pend = <<>> /\ cur = 0 /\ stack # <<>> /\ ~returned
  /\ LET node == stack[Len(stack)]
         rest == SubSeq(stack, 1, Len(stack) - 1)
         g == out[node]
         slots == ParentSeq(node, 1)
     IN /\ g.buf # 0
        /\ called' = [called EXCEPT ![node] = @ + 1]
        /\ gAt' = [gAt EXCEPT ![node] = heap[g.buf].val]
        /\ out' = [out EXCEPT ![node] = NoG]
        /\ stack' = rest
        /\ cur' = node
        /\ lastbuf' = g.buf
        /\ returned' = FALSE /\ results' = results
        /\ IF node = 1
             THEN /\ pend' = <<>> /\ heap' = heap        \* the root's vjp is  lambda g: ()
             ELSE /\ TRUE
                  /\ LET mk[i \in 0..Len(slots)] ==
                           IF i = 0 THEN [h |-> heap, pd |-> <<>>]
                           ELSE LET j == slots[i]
                                    s == args[node][j]
                                    wv == Weight(node, j, s.kd) * heap[g.buf].val
                                IN IF s.kd = "alias"
                                     THEN [h |-> mk[i-1].h,
                                           pd |-> Append(mk[i-1].pd, [p |-> s.p, buf |-> g.buf, sparse |-> FALSE, val |-> wv])]
                                     ELSE [h |-> Append(mk[i-1].h, [val |-> wv, owner |-> "ag"]),
                                           pd |-> Append(mk[i-1].pd, [p |-> s.p, buf |-> Len(mk[i-1].h) + 1,
                                                                       sparse |-> (s.kd = "sparse"), val |-> wv])]
                     IN /\ heap' = mk[Len(slots)].h /\ pend' = mk[Len(slots)].pd
  /\ UNCHANGED <<args, live, g0, ncalls, phase, cc, gbuf, wrotebad, crashed>>

\* the toposort generator is exhausted: backward_pass returns the outgrad popped last
Finish ==
  /\ phase = "sort" /\ pend = <<>> /\ cur = 0 /\ stack = <<>> /\ ~returned
  /\ returned' = TRUE
  /\ results' = Append(results, [g |-> g0, r |-> heap[lastbuf].val, buf |-> lastbuf])
  /\ UNCHANGED <<args, live, g0, ncalls, phase, stack, cc, out, heap, gbuf, called, gAt, pend, cur, wrotebad, crashed, lastbuf>>

\* outgrads.pop(node) on a node without an entry: KeyError
PopMissing ==
  /\ phase = "sort" /\ pend = <<>> /\ cur = 0 /\ stack # <<>> /\ ~returned /\ ~crashed
  /\ out[stack[Len(stack)]].buf = 0
  /\ crashed' = TRUE
  /\ UNCHANGED <<args, live, g0, results, returned, ncalls, phase, stack, cc, out, heap, gbuf, called, gAt, pend, cur, wrotebad, lastbuf>>

\* ---------------------------------------------------------------- add_outgrads for one (parent, ingrad)
\* a buffer may be written in place only if autograd allocated it and nobody else refers to it
Shared(b) == \/ heap[b].owner # "ag"
             \/ Cardinality({k \in NodesOf(args) : out[k].buf = b}) > 1
             \/ \E i \in DOMAIN pend : i > 1 /\ pend[i].buf = b /\ ~pend[i].sparse
AddOne ==
  /\ phase = "sort" /\ pend # <<>>
  /\ LET e == Head(pend)
         prev == out[e.p]
         gv == heap[e.buf].val
         fresh(v) == Append(heap, [val |-> v, owner |-> "ag"])
     IN /\ pend' = Tail(pend)
        /\ IF prev.buf = 0 THEN
             IF e.sparse
               THEN \* sparse_add(vs, None, g): zeros() then scatter into it
                    /\ heap' = fresh(gv) /\ out' = [out EXCEPT ![e.p] = [buf |-> Len(heap) + 1, mut |-> TRUE]]
                    /\ wrotebad' = wrotebad
               ELSE /\ out' = [out EXCEPT ![e.p] = [buf |-> e.buf, mut |-> FirstMutable]]
                    /\ heap' = heap /\ wrotebad' = wrotebad
           ELSE IF prev.mut THEN
             \* vs.mut_add(prev, g) / sparse_add(vs, prev, g): in place
             /\ heap' = [heap EXCEPT ![prev.buf].val = @ + gv]
             /\ wrotebad' = (wrotebad \/ Shared(prev.buf))
             /\ out' = [out EXCEPT ![e.p] = [buf |-> prev.buf, mut |-> TRUE]]
           ELSE IF e.sparse /\ MutAddNoneAliases THEN
             \* mutant: mut_add(None, prev) returns prev itself, then the scatter writes into it
             /\ heap' = [heap EXCEPT ![prev.buf].val = @ + gv]
             /\ wrotebad' = (wrotebad \/ Shared(prev.buf))
             /\ out' = [out EXCEPT ![e.p] = [buf |-> prev.buf, mut |-> TRUE]]
           ELSE \* vs.add(prev, g)  or  sparse_add(vs, vs.mut_add(None, prev), g): a new buffer
             /\ heap' = fresh(heap[prev.buf].val + gv)
             /\ out' = [out EXCEPT ![e.p] = [buf |-> Len(heap) + 1, mut |-> TRUE]]
             /\ wrotebad' = wrotebad
  /\ UNCHANGED <<args, live, g0, results, returned, ncalls, phase, stack, cc, gbuf, called, gAt, cur, crashed, lastbuf>>

\* ---------------------------------------------------------------- util.toposort, second loop for the node just consumed
Dec ==
  /\ phase = "sort" /\ pend = <<>> /\ cur # 0
  /\ LET slots == ParentSeq(cur, 1)
         F[i \in 0..Len(slots)] ==
            IF i = 0 THEN [c |-> cc, s |-> stack]
            ELSE LET st == F[i-1]  p == args[cur][slots[i]].p IN
                 IF st.c[p] = 1 THEN [c |-> st.c, s |-> Append(st.s, p)]
                 ELSE [c |-> [st.c EXCEPT ![p] = @ - 1], s |-> st.s]
     IN /\ cc' = F[Len(slots)].c /\ stack' = F[Len(slots)].s
  /\ cur' = 0
  /\ UNCHANGED <<args, live, g0, results, returned, ncalls, phase, out, heap, gbuf, called, gAt, pend, wrotebad, crashed, lastbuf>>

\* ---------------------------------------------------------------- an exception escapes from node.vjp
\* backward_pass is abandoned; its locals (outgrads, the toposort generator) are simply dropped
Abort ==
  /\ phase = "sort" /\ pend = <<>> /\ cur = 0 /\ stack # <<>> /\ ~returned
  /\ returned' = TRUE
  /\ UNCHANGED <<args, live, g0, results, ncalls, phase, stack, cc, out, heap, gbuf, called, gAt, pend, cur, wrotebad, crashed, lastbuf>>

\* ---------------------------------------------------------------- the VJP function is called again
\* the caller keeps the result buffer: from now on it is the caller's memory
NewCall(g) ==
  /\ returned
  /\ LET h == [b \in DOMAIN heap |-> IF \E i \in DOMAIN results : results[i].buf = b THEN [heap[b] EXCEPT !.owner = "user"] ELSE heap[b]]
     IN /\ g0' = g
        /\ heap' = Append(h, [val |-> g, owner |-> "user"])
        /\ gbuf' = Len(h) + 1
        /\ out' = [k \in NodesOf(args) |-> IF k = Out THEN [buf |-> Len(h) + 1, mut |-> FALSE] ELSE NoG]
  /\ phase' = "count" /\ stack' = <<Out>>
  /\ cc' = [k \in NodesOf(args) |-> 0]
  /\ called' = [k \in NodesOf(args) |-> 0]
  /\ gAt' = [k \in NodesOf(args) |-> 0]
  /\ pend' = <<>> /\ cur' = 0 /\ returned' = FALSE /\ ncalls' = ncalls + 1 /\ lastbuf' = 0
  /\ UNCHANGED <<args, live, results, wrotebad, crashed>>

INext(G, MaxCalls) == \/ Count \/ CountDone \/ Pop \/ Finish \/ PopMissing \/ AddOne \/ Dec \/ Abort
                      \/ (ncalls < MaxCalls /\ \E g \in G : NewCall(g))

\* ---------------------------------------------------------------- refinement mapping to RevAbs
PendFor(p) == SumFn([i \in {i \in DOMAIN pend : pend[i].p = p} |-> pend[i].val])
AbsAcc == [k \in NodesOf(args) |->
             IF called[k] > 0 THEN gAt[k]
             ELSE (IF out[k].buf = 0 THEN 0 ELSE heap[out[k].buf].val) + PendFor(k)]
Abs == INSTANCE RevAbs WITH applied <- {k \in NodesOf(args) \ {1} : called[k] > 0},
                            acc <- AbsAcc,
                            results <- [i \in DOMAIN results |-> [g |-> results[i].g, r |-> results[i].r]]

\* ---------------------------------------------------------------- properties of the implementation-shaped model
OnceEach == \A k \in NodesOf(args) : called[k] <= 1                                   \* C03
DeadNeverApplied == \A k \in NodesOf(args) : called[k] > 0 => k \in live              \* C03
AllLiveApplied == (returned /\ lastbuf # 0 /\ stack = <<>>) => \A k \in live : called[k] = 1
ResultIsPathSum == \A i \in DOMAIN results : results[i].r = results[i].g * PathSum(args, 1)   \* C03, C10, C11-mixing
NoKeyError == ~crashed
NoBadWrite == ~wrotebad                                                               \* C10
\* C10: memory owned by the caller (cotangents passed in, results handed back) never changes
UserMemoryIntact == [][\A b \in DOMAIN heap : heap[b].owner = "user" => heap'[b].val = heap[b].val]_ivars
\* C11: every node's accumulated cotangent equals the sum of the dense equivalents of its contributions
AccIsDenseSum == \A k \in NodesOf(args) :
                   (called[k] > 0 /\ k \in live) => gAt[k] = g0 * PathSum(args, k)
=============================================================================
