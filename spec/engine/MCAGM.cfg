CONSTANTS CounterScope = "thread" ExcPolicy = "leak" TopCmp = ">" DepTest = "id"
CONSTANTS Family = "nest" Depth = 2 Export = FALSE
SPECIFICATION Spec
INVARIANT ResultIsDen
INVARIANT LevelsStrictlyIncrease
INVARIANT NoStaleBox
INVARIANT NoLeak
