------------------------------- MODULE Dags -------------------------------
(* The space of computation graphs the reverse/forward pass is quantified over.
   A graph is a sequence  args[k]  (k = 1..n), node 1 = the differentiated input (root), node n = the output.
   args[k] is the sequence of argument slots of the primitive call that produced node k; a slot is
   [p |-> parent node (0 = a constant argument), kd |-> kind of cotangent contribution the rule hands back].
   Kinds:  "alias"  the rule returns the incoming cotangent object itself (weight 1, like anp.add without broadcasting)
           "fresh"  the rule returns a newly allocated value  w * g
           "sparse" the rule returns a SparseObject (deferred scatter-add) whose dense equivalent is  w * g
   Multi-edges (f(x, x)), diamonds, dead branches (any sink other than n) and constants are all in the space. *)
EXTENDS Integers, Sequences, FiniteSets

\* local derivative of argument slot j of node k: small, distinct-ish, positive
Weight(k, j, kd) == IF kd = "alias" THEN 1 ELSE 2 + ((3 * k + j) % 5)

SeqsLen(S, m) == [1..m -> S]
SeqsUpTo(S, n) == UNION {SeqsLen(S, m) : m \in 1..n}

Slots(k, Kinds, WithConst) ==
  {[p |-> q, kd |-> kd] : q \in 1..(k-1), kd \in Kinds} \cup (IF WithConst THEN {[p |-> 0, kd |-> "const"]} ELSE {})

\* argument lists of node k: 1..MaxAr slots, at least one of them a real parent;
\* KindMode = "node": all slots of one call hand back the same kind of contribution
ArgLists(k, MaxAr, Kinds, WithConst, KindMode) ==
  {a \in SeqsUpTo(Slots(k, Kinds, WithConst), MaxAr) :
      /\ \E i \in DOMAIN a : a[i].p > 0
      /\ KindMode = "node" => \A i, j \in DOMAIN a : (a[i].p > 0 /\ a[j].p > 0) => a[i].kd = a[j].kd}

RECURSIVE DagSet(_, _, _, _, _)
DagSet(n, MaxAr, Kinds, WithConst, KindMode) ==
  IF n = 1 THEN { << <<>> >> }
  ELSE {Append(d, a) : d \in DagSet(n - 1, MaxAr, Kinds, WithConst, KindMode),
                       a \in ArgLists(n, MaxAr, Kinds, WithConst, KindMode)}

\* Star graphs for the sparse/dense mixing property (C11): node 1 = x; nodes 2..K+1 each use x once, handing back
\* a contribution of any kind; node K+2 consumes all of them (alias or fresh) and possibly x itself, first or last.
\* The backward pass reaches x's consumers in the reverse of their argument order at the sink, so enumerating the
\* kinds per position enumerates every arrival order of sparse and dense contributions at x.
StarSet(K, Kinds) ==
  LET Dense == {"alias", "fresh"}
      mids == [2..(K+1) -> Kinds]
      outs == [2..(K+1) -> Dense]
      direct == {<<"none", "alias">>} \cup {<<pos, kd>> : pos \in {"first", "last"}, kd \in Dense}
  IN {LET us == [i \in 1..K |-> [p |-> i + 1, kd |-> o[i + 1]]]
          sink == IF d[1] = "none" THEN us
                  ELSE IF d[1] = "first" THEN <<[p |-> 1, kd |-> d[2]]>> \o us
                  ELSE us \o <<[p |-> 1, kd |-> d[2]]>>
      IN << <<>> >> \o [i \in 1..K |-> << [p |-> 1, kd |-> m[i + 1]] >>] \o << sink >>
      : m \in mids, o \in outs, d \in direct}

\* Shared-buffer graphs (C10 / C03): an ACCUMULATED cotangent is handed on unchanged (alias) to several parents which receive
\* further contributions afterwards - the situation in which an in-place accumulation would corrupt a buffer two nodes share.
\*   1: x;  2, 3: u, v = op(x);  4: w = op(u, v) (kinds per slot);  5: t = op(u, v) (another consumer of u and v);
\*   6: out = op(args) where args is an arrangement of t and one or two uses of w (the LIFO order of the backward pass follows it).
ShareSet(Kinds) ==
  LET Dense == {"alias", "fresh"}
      outArgs == {<<5, 4>>, <<4, 5>>, <<5, 4, 4>>, <<4, 5, 4>>, <<4, 4, 5>>}
  IN {<< <<>>,
         <<[p |-> 1, kd |-> "fresh"]>>, <<[p |-> 1, kd |-> "fresh"]>>,
         <<[p |-> 2, kd |-> wk[1]], [p |-> 3, kd |-> wk[2]]>>,
         <<[p |-> 2, kd |-> tk[1]], [p |-> 3, kd |-> tk[2]]>>,
         [i \in DOMAIN oa |-> [p |-> oa[i], kd |-> ok[i]]] >>
      : wk \in [1..2 -> Dense], tk \in [1..2 -> Kinds], oa \in outArgs, ok \in [1..3 -> Dense]}

\* ---------------------------------------------------------------- derived structure
NodesOf(args) == 1..Len(args)
ParentsOf(args, k) == {args[k][j].p : j \in DOMAIN args[k]} \ {0}

\* ancestors-or-self of the output node (the nodes the output depends on)
LiveOf(args) ==
  LET n == Len(args)
      F[i \in 0..n] == IF i = 0 THEN {n}
                       ELSE F[i-1] \cup UNION {ParentsOf(args, k) : k \in F[i-1]}
  IN F[n]

\* sum of an integer-valued function over its (finite) domain
RECURSIVE SumFn(_)
SumFn(f) == IF DOMAIN f = {} THEN 0
            ELSE LET x == CHOOSE x \in DOMAIN f : TRUE
                 IN f[x] + SumFn([y \in DOMAIN f \ {x} |-> f[y]])

\* total local derivative of node c with respect to node k (all slots of c that hold k)
EdgeWeight(args, c, k) ==
  LET js == {j \in DOMAIN args[c] : args[c][j].p = k}
  IN SumFn([j \in js |-> Weight(c, j, args[c][j].kd)])

\* d(output)/d(node k) as the sum over all dependency paths of the products of the local derivatives
RECURSIVE PathSum(_, _)
PathSum(args, k) ==
  IF k = Len(args) THEN 1
  ELSE LET cs == {c \in (k+1)..Len(args) : k \in ParentsOf(args, c)}
       IN SumFn([c \in cs |-> EdgeWeight(args, c, k) * PathSum(args, c)])
=============================================================================
