--------------------------------- MODULE AGM ---------------------------------
(* The autograd abstract machine.

   A PROGRAM is data: a sequence of bodies (instruction lists); body 1 of a thread is its main function.
   Instructions:
     [op |-> "prim", p, a]            r := p(refs a)          p in {"add","mul","neg","take","nd","bomb","user"}
     [op |-> "diff", mode, b, at, seed]  r := derivative of body b (one parameter) at value `at`,
                                         applied to `seed`   (mode "vjp": make_vjp(f)(at)[0](seed);
                                                              mode "jvp": make_jvp(f)(at)(seed)[1])
     [op |-> "try", b]                r := value of body b, or Fallback if it raises
     [op |-> "call", b]               r := value of body b (no parameter; sees the enclosing registers)
     [op |-> "ckpt", b, a]            r := checkpoint(body b)(refs a)   (body b has Len(a) parameters)
     [op |-> "if", c, bt, bf]         r := value of body bt if Plain(c) > 0 else bf   (Box.__bool__ / comparisons are plain)
     [op |-> "raise"]                 an exception escapes from user code
     [op |-> "ret", a]
   A ref is [up, r]: register r of the frame `up` static levels up (closure capture); up = -1: the constant r.

   The machine state mirrors autograd/tracer.py and autograd/core.py:
     top          the depth counter of TraceStack (one per thread, or one global one: CounterScope)
     frames       per thread, the stack of active function activations; a "vjp"/"jvp" frame is one active trace()
     heap         per thread, the nodes (VJPNode: parents, argnums, closure data ans/args; JVPNode: eager tangent g)
     values       plain  [k |-> "p", v]   or box  [k |-> "b", v, t, n]  (boxes nest: a level-2 box wraps a level-1 box)
   Steps are instruction-granular; the primitive wrapper's recursion through the levels (Apply) and a whole
   backward pass (Backward) are atomic operators.

   Switches (constants) name deliberate deviations / model mutants:
     CounterScope  "thread" (repaired tree) | "global" (pinned tree before the C20 fix)
     ExcPolicy     "leak" (pinned: new_trace has no try/finally, top is not restored on the exception path)
                   | "restore" (a try/finally variant; also correct) | "reset" (top := -1 on exception; wrong)
     TopCmp        ">" (pinned) | ">=" (mutant of find_top_boxed_args)
     DepTest       "id" (pinned: isbox(end) and end._trace == start._trace) | "isbox" | "top" (mutants)
*)
EXTENDS Integers, Sequences, FiniteSets, TLC, Poly

CONSTANTS CounterScope, ExcPolicy, TopCmp, DepTest

Fallback == -5

\* ------------------------------------------------------------------ machine state
VARIABLES prog,     \* [bodies, threads: Seq([main, input]), warnerr, utable, uscale]  - chosen in Init, never changes
                    \*   utable[i] in {"rule","zero","missing"}: what is registered for argument i of the user primitive
          top,      \* [Threads -> Int]; with CounterScope = "global" only top[1] is used
          frames,   \* [Threads -> Seq(frame)]
          heap,     \* [Threads -> Seq(node)]
          exc,      \* [Threads -> BOOLEAN]: an exception is propagating
          result,   \* [Threads -> [k |-> "none"] | [k |-> "val", v] | [k |-> "exc"]]
          log       \* [Threads -> Seq(Int)]: trace ids handed out, in order (Tier-I observation)
vars == <<prog, top, frames, heap, exc, result, log>>


P(v) == [k |-> "p", v |-> v]
B(v, t, n) == [k |-> "b", v |-> v, t |-> t, n |-> n]
IsBox(x) == x.k = "b"

Max(S) == CHOOSE m \in S : \A x \in S : x <= m
RECURSIVE Plain(_)
Plain(x) == IF IsBox(x) THEN Plain(x.v) ELSE x.v
\* highest trace id occurring anywhere in the nesting of a value (-1: plain)
RECURSIVE MaxLevel(_)
MaxLevel(x) == IF IsBox(x) THEN (IF x.t > MaxLevel(x.v) THEN x.t ELSE MaxLevel(x.v)) ELSE -1

RECURSIVE ProdSeqFrom(_, _)
ProdSeqFrom(xs, i) == IF i > Len(xs) THEN 1 ELSE xs[i] * ProdSeqFrom(xs, i + 1)
ProdSeq(xs) == ProdSeqFrom(xs, 1)
Raw(p, xs) == CASE p = "add" -> xs[1] + xs[2]
                [] p = "mul" -> xs[1] * xs[2]
                [] p = "neg" -> 0 - xs[1]
                [] p = "take" -> xs[1]          \* x[idx] with idx selecting every entry once (the indexing primitive, value-wise the identity)
                [] p = "nd"  -> xs[1]
                [] p = "bomb" -> xs[1]
                [] p = "user" -> prog.uscale * ProdSeq(xs)

\* ------------------------------------------------------------------ tracer.find_top_boxed_args
TopTrace(args) == LET S == {args[i].t : i \in {j \in DOMAIN args : IsBox(args[j])}} IN
                  IF S = {} THEN -1 ELSE Max(S)
RECURSIVE TopNumsFrom(_, _, _)
TopNumsFrom(args, tt, i) == IF i > Len(args) THEN <<>>
                            ELSE IF IsBox(args[i]) /\ args[i].t = tt THEN <<i>> \o TopNumsFrom(args, tt, i + 1)
                            ELSE TopNumsFrom(args, tt, i + 1)
\* with ">=" every box of the top trace REPLACES the list instead of extending it: only the last one survives
TopNums(args, tt) == LET all == TopNumsFrom(args, tt, 1) IN
                     IF TopCmp = ">=" THEN <<all[Len(all)]>> ELSE all

Res(v, h) == [val |-> v, heap |-> h, exc |-> FALSE]
Exc(h) == [val |-> P(0), heap |-> h, exc |-> TRUE]

RECURSIVE Apply(_, _, _), JvpRule(_, _, _, _, _, _), SumJvps(_, _, _, _, _, _), VjpRule(_, _, _, _, _, _), UserRule(_, _, _, _, _)

\* tracer.primitive / f_wrapped
Apply(p, args, h) ==
  LET tt == TopTrace(args) IN
  IF tt = -1 THEN Res(P(Raw(p, [i \in DOMAIN args |-> args[i].v])), h)
  ELSE
    LET nums == TopNums(args, tt)
        inNums(i) == \E j \in DOMAIN nums : nums[j] = i
        argvals == [i \in DOMAIN args |-> IF inNums(i) THEN args[i].v ELSE args[i]]
    IN IF p = "nd" THEN Apply(p, argvals, h)                \* registered notrace for both node types
       ELSE
       LET r == Apply(p, argvals, h) IN
       IF r.exc THEN r
       ELSE IF p = "user" /\ \E j \in DOMAIN nums : prog.utable[nums[j]] = "missing" THEN Exc(r.heap)   \* no rule registered: raises
       ELSE
       LET nty == r.heap[args[nums[1]].n].ty IN
       IF nty = "V"
       THEN LET node == [ty |-> "V", parents |-> [j \in DOMAIN nums |-> args[nums[j]].n],
                         prim |-> p, argnums |-> nums, ans |-> r.val, args |-> argvals]
                h2 == Append(r.heap, node)
            IN Res(B(r.val, tt, Len(h2)), h2)
       ELSE LET gs == [j \in DOMAIN nums |-> r.heap[args[nums[j]].n].g]
                s == SumJvps(p, nums, gs, r.val, argvals, r.heap)
            IN IF s.exc THEN s
               ELSE LET h2 == Append(s.heap, [ty |-> "J", g |-> s.val])
                    IN Res(B(r.val, tt, Len(h2)), h2)

\* the rule a user registers for argument `argnum` of the product primitive  user(a1..an) = uscale * a1 * ... * an :
\*   g -> ((uscale * g) * a_j1) * a_j2 ...   over the other arguments in order; written with traceable operations
UserRule(argnum, g, args, h, j) ==
  LET start == Apply("mul", <<P(prog.uscale), g>>, h)
      RECURSIVE Go(_, _)
      Go(acc, i) == IF acc.exc \/ i > Len(args) THEN acc
                    ELSE IF i = argnum THEN Go(acc, i + 1)
                    ELSE Go(Apply("mul", <<acc.val, args[i]>>, acc.heap), i + 1)
  IN Go(start, 1)

\* per-argument JVP rule (numpy_jvps.py): add -> g ; mul -> def_linear ; neg -> 'same'
JvpRule(p, argnum, g, ans, args, h) ==
  CASE p = "add" -> Res(g, h)
    [] p = "mul" -> Apply("mul", [args EXCEPT ![argnum] = g], h)
    [] p = "neg" -> Apply("neg", <<g>>, h)
    [] p = "take" -> Apply("take", <<g>>, h)          \* 'same' rule: the tangent is indexed the same way
    [] p = "bomb" -> Exc(h)
    [] p = "user" -> CASE prog.utable[argnum] = "rule" -> UserRule(argnum, g, args, h, 1)
                       [] prog.utable[argnum] = "zero" -> Res(P(0), h)
                       [] OTHER -> Exc(h)

\* core.sum_outgrads over the per-argument tangents (vs.add / vs.mut_add are primitives with identity rules)
SumJvps(p, nums, gs, ans, args, h) ==
  LET first == JvpRule(p, nums[1], gs[1], ans, args, h)
      RECURSIVE Go(_, _)
      Go(acc, i) == IF acc.exc \/ i > Len(nums) THEN acc
                    ELSE LET t == JvpRule(p, nums[i], gs[i], ans, args, acc.heap)
                         IN IF t.exc THEN t ELSE Go(Apply("add", <<acc.val, t.val>>, t.heap), i + 1)
  IN Go(first, 2)

\* per-argument VJP rule (numpy_vjps.py)
VjpRule(p, argnum, g, ans, args, h) ==
  CASE p = "add" -> Res(g, h)
    [] p = "mul" -> Apply("mul", <<args[3 - argnum], g>>, h)
    [] p = "neg" -> Apply("neg", <<g>>, h)
    \* untake(g, idx): a primitive applied to g with rules of its own (the scatter is deferred - a SparseObject - but as a function of g
    \* it is the identity here); how the deferred scatter is accumulated is RevImpl's business, not the machine's
    [] p = "take" -> Apply("take", <<g>>, h)
    [] p = "bomb" -> Exc(h)
    [] p = "user" -> CASE prog.utable[argnum] = "rule" -> UserRule(argnum, g, args, h, 1)
                       [] prog.utable[argnum] = "zero" -> Res(P(0), h)
                       [] OTHER -> Exc(h)

\* ------------------------------------------------------------------ reverse pass (util.toposort + core.backward_pass)
RECURSIVE CountLoop(_, _, _)
CountLoop(stack, cc, h) ==
  IF stack = <<>> THEN cc
  ELSE LET n == stack[Len(stack)] rest == SubSeq(stack, 1, Len(stack) - 1) IN
       IF n \in DOMAIN cc THEN CountLoop(rest, [cc EXCEPT ![n] = @ + 1], h)
       ELSE CountLoop(rest \o h[n].parents, [m \in DOMAIN cc \cup {n} |-> IF m = n THEN 1 ELSE cc[m]], h)

EmptyFn == [x \in {} |-> 0]

RECURSIVE BackLoop(_)
BackLoop(st) ==
  IF st.stack = <<>> \/ st.exc THEN st
  ELSE
   LET n == st.stack[Len(st.stack)]
       rest == SubSeq(st.stack, 1, Len(st.stack) - 1)
       g == st.out[n]
       nd == st.h[n]
       RECURSIVE Ingrads(_, _, _)
       Ingrads(j, acc, hh) == IF j > Len(nd.parents) THEN [gs |-> acc, h |-> hh, exc |-> FALSE]
                              ELSE LET r == VjpRule(nd.prim, nd.argnums[j], g, nd.ans, nd.args, hh)
                                   IN IF r.exc THEN [gs |-> acc, h |-> r.heap, exc |-> TRUE]
                                      ELSE Ingrads(j + 1, Append(acc, r.val), r.heap)
       ing == IF nd.parents = <<>> THEN [gs |-> <<>>, h |-> st.h, exc |-> FALSE] ELSE Ingrads(1, <<>>, st.h)
       RECURSIVE AddAll(_, _, _)
       AddAll(j, out, hh) == IF j > Len(nd.parents) THEN [out |-> out, h |-> hh]
                             ELSE LET p == nd.parents[j] IN
                                  IF p \in DOMAIN out
                                  THEN LET s == Apply("add", <<out[p], ing.gs[j]>>, hh)
                                       IN AddAll(j + 1, [out EXCEPT ![p] = s.val], s.heap)
                                  ELSE AddAll(j + 1, [m \in DOMAIN out \cup {p} |-> IF m = p THEN ing.gs[j] ELSE out[m]], hh)
       added == AddAll(1, [m \in DOMAIN st.out \ {n} |-> st.out[m]], ing.h)
       RECURSIVE Dec(_, _, _)
       Dec(j, cc, stk) == IF j > Len(nd.parents) THEN [cc |-> cc, stack |-> stk]
                          ELSE LET p == nd.parents[j] IN
                               IF cc[p] = 1 THEN Dec(j + 1, cc, Append(stk, p))
                               ELSE Dec(j + 1, [cc EXCEPT ![p] = @ - 1], stk)
       d == Dec(1, st.cc, rest)
   IN IF ing.exc THEN [st EXCEPT !.exc = TRUE, !.h = ing.h]
      ELSE BackLoop([stack |-> d.stack, cc |-> d.cc, out |-> added.out, h |-> added.h, last |-> g, exc |-> FALSE])

Backward(g, endn, h) ==
  LET cc == CountLoop(<<endn>>, EmptyFn, h)
      fin == BackLoop([stack |-> <<endn>>, cc |-> cc, out |-> [m \in {endn} |-> g], h |-> h, last |-> g, exc |-> FALSE])
  IN [val |-> fin.last, heap |-> fin.h, exc |-> fin.exc]

\* ------------------------------------------------------------------ machine (continued)
Threads == DOMAIN prog.threads
Bodies == prog.bodies
Scope(th) == IF CounterScope = "global" THEN 1 ELSE th

RECURSIVE Lookup(_, _, _)
Lookup(fr, fi, ref) == IF ref.up = -1 THEN P(ref.r)
                       ELSE IF ref.up = 0 THEN fr[fi].regs[ref.r]
                       ELSE Lookup(fr, fr[fi].link, [ref EXCEPT !.up = @ - 1])

Frame(b, regs, link, kind, t) == [b |-> b, pc |-> 1, regs |-> regs, link |-> link, kind |-> kind, t |-> t]

MInit(programs) ==
  /\ prog \in programs
  /\ top = [th \in DOMAIN prog.threads |-> -1]
  /\ frames = [th \in DOMAIN prog.threads |-> <<Frame(prog.threads[th].main, <<P(prog.threads[th].input)>>, 0, "plain", -1)>>]
  /\ heap = [th \in DOMAIN prog.threads |-> <<>>]
  /\ exc = [th \in DOMAIN prog.threads |-> FALSE]
  /\ result = [th \in DOMAIN prog.threads |-> [k |-> "none"]]
  /\ log = [th \in DOMAIN prog.threads |-> <<>>]

Running(th) == result[th].k = "none" /\ ~exc[th]
Cur(th) == frames[th][Len(frames[th])]
Ins(th) == Bodies[Cur(th).b][Cur(th).pc]
Val(th, ref) == Lookup(frames[th], Len(frames[th]), ref)
\* the current frame gets a new register and moves on
Push(th, v) == [frames EXCEPT ![th][Len(frames[th])] = [@ EXCEPT !.regs = Append(@, v), !.pc = @ + 1]]
\* the top frame is popped and its caller gets a new register and moves on
PopTo(th, v) == LET fs == frames[th]  n == Len(fs)
                    caller == [fs[n-1] EXCEPT !.regs = Append(@, v), !.pc = @ + 1]
                IN [frames EXCEPT ![th] = SubSeq(fs, 1, n - 2) \o <<caller>>]

StepPrim(th) ==
  /\ Running(th) /\ Ins(th).op = "prim"
  /\ LET r == Apply(Ins(th).p, [i \in DOMAIN Ins(th).a |-> Val(th, Ins(th).a[i])], heap[th]) IN
       /\ heap' = [heap EXCEPT ![th] = r.heap]
       /\ IF r.exc THEN exc' = [exc EXCEPT ![th] = TRUE] /\ frames' = frames
                   ELSE exc' = exc /\ frames' = Push(th, r.val)
  /\ UNCHANGED <<prog, top, result, log>>

\* tracer.trace: with trace_stack.new_trace() as t: start_box = new_box(x, t, start_node)
StepDiff(th) ==
  /\ Running(th) /\ Ins(th).op = "diff"
  /\ LET t == top[Scope(th)] + 1
         root == IF Ins(th).mode = "vjp" THEN [ty |-> "V", parents |-> <<>>, prim |-> "root", argnums |-> <<>>, ans |-> P(0), args |-> <<>>]
                 ELSE [ty |-> "J", g |-> Val(th, Ins(th).seed)]
         h2 == Append(heap[th], root)
     IN /\ top' = [top EXCEPT ![Scope(th)] = t]
        /\ heap' = [heap EXCEPT ![th] = h2]
        /\ frames' = [frames EXCEPT ![th] = Append(@, Frame(Ins(th).b, <<B(Val(th, Ins(th).at), t, Len(h2))>>, Len(frames[th]), Ins(th).mode, t))]
        /\ log' = [log EXCEPT ![th] = Append(@, t)]
  /\ UNCHANGED <<prog, exc, result>>

StepNest(th) ==
  /\ Running(th) /\ Ins(th).op \in {"try", "call", "if", "ckpt"}
  /\ LET b == IF Ins(th).op = "if" THEN (IF Plain(Val(th, Ins(th).c)) > 0 THEN Ins(th).bt ELSE Ins(th).bf) ELSE Ins(th).b
         kind == IF Ins(th).op = "try" THEN "try" ELSE "call"
         \* "ckpt" = autograd.checkpoint(body)(args): the machine treats it as a plain call with parameters
         \* (deliberate deviation: recomputation during the backward pass is not modelled; value and derivatives are the same)
         regs == IF Ins(th).op = "ckpt" THEN [i \in DOMAIN Ins(th).a |-> Val(th, Ins(th).a[i])] ELSE <<>>
     IN frames' = [frames EXCEPT ![th] = Append(@, Frame(b, regs, Len(frames[th]), kind, -1))]
  /\ UNCHANGED <<prog, top, heap, exc, result, log>>

StepRaise(th) ==
  /\ Running(th) /\ Ins(th).op = "raise"
  /\ exc' = [exc EXCEPT ![th] = TRUE]
  /\ UNCHANGED <<prog, top, frames, heap, result, log>>

StepRet(th) ==
  /\ Running(th) /\ Ins(th).op = "ret"
  /\ LET v == Val(th, Ins(th).a)
         f == Cur(th)
     IN
     IF f.kind = "plain" THEN
        /\ result' = [result EXCEPT ![th] = [k |-> "val", v |-> v]]
        /\ UNCHANGED <<top, frames, heap, exc, log>>
     ELSE IF f.kind \in {"try", "call"} THEN
        /\ frames' = PopTo(th, v)
        /\ UNCHANGED <<top, heap, exc, result, log>>
     ELSE
        LET fs == frames[th]
            caller == fs[Len(fs) - 1]
            cins == Bodies[caller.b][caller.pc]
            dep == CASE DepTest = "id" -> IsBox(v) /\ v.t = f.t
                     [] DepTest = "isbox" -> IsBox(v)
                     [] DepTest = "top" -> IsBox(v) /\ v.t = top[Scope(th)]     \* mutant: reads the live counter
        IN
        IF ~dep /\ prog.warnerr THEN
           \* warnings.warn("Output seems independent of input.") promoted to an error: raised inside the with block
           /\ exc' = [exc EXCEPT ![th] = TRUE]
           /\ UNCHANGED <<top, frames, heap, result, log>>
        ELSE
        LET seed == Lookup(fs, Len(fs) - 1, cins.seed)
            res == IF f.kind = "jvp" THEN (IF dep THEN Res(heap[th][v.n].g, heap[th]) ELSE Res(P(0), heap[th]))
                   ELSE IF dep THEN Backward(seed, v.n, heap[th]) ELSE Res(P(0), heap[th])
        IN /\ top' = [top EXCEPT ![Scope(th)] = @ - 1]          \* normal exit of new_trace
           /\ heap' = [heap EXCEPT ![th] = res.heap]
           /\ IF res.exc
                THEN \* a rule raised during the backward pass: the trace has already been exited
                     /\ exc' = [exc EXCEPT ![th] = TRUE]
                     /\ frames' = [frames EXCEPT ![th] = SubSeq(fs, 1, Len(fs) - 1)]
                ELSE /\ exc' = exc
                     /\ frames' = PopTo(th, res.val)
           /\ UNCHANGED <<result, log>>
  /\ UNCHANGED prog

\* exception propagation, one frame per step
Unwind(th) ==
  /\ exc[th] /\ result[th].k = "none"
  /\ LET fs == frames[th]  f == fs[Len(fs)] IN
     IF f.kind = "plain" THEN
        /\ result' = [result EXCEPT ![th] = [k |-> "exc"]]
        /\ UNCHANGED <<top, frames, heap, exc, log>>
     ELSE IF f.kind = "try" THEN
        /\ frames' = PopTo(th, P(Fallback))
        /\ exc' = [exc EXCEPT ![th] = FALSE]
        /\ UNCHANGED <<top, heap, result, log>>
     ELSE
        /\ frames' = [frames EXCEPT ![th] = SubSeq(fs, 1, Len(fs) - 1)]
        /\ IF f.kind \in {"vjp", "jvp"}
             THEN top' = [top EXCEPT ![Scope(th)] = CASE ExcPolicy = "leak" -> @
                                                      [] ExcPolicy = "restore" -> @ - 1
                                                      [] ExcPolicy = "reset" -> -1]
             ELSE top' = top
        /\ UNCHANGED <<heap, exc, result, log>>
  /\ UNCHANGED prog


Step(th) == StepPrim(th) \/ StepDiff(th) \/ StepNest(th) \/ StepRaise(th) \/ StepRet(th) \/ Unwind(th)
MNext == \E th \in Threads : Step(th)

\* ------------------------------------------------------------------ structural invariants (C08 / C19 / C20 mechanism)
DiffFrames(th) == {i \in DOMAIN frames[th] : frames[th][i].kind \in {"vjp", "jvp"}}
\* trace ids strictly increase along a thread's nesting: "highest id = innermost"
LevelsStrictlyIncrease == \A th \in Threads : \A i, j \in DiffFrames(th) : i < j => frames[th][i].t < frames[th][j].t
\* every register of an activation holds a value whose levels are active traces of this thread
NoStaleBox == \A th \in Threads : \A i \in DOMAIN frames[th] : \A r \in DOMAIN frames[th][i].regs :
                 LET lv == MaxLevel(frames[th][i].regs[r]) IN
                 lv = -1 \/ \E j \in DiffFrames(th) : j <= i /\ frames[th][j].t = lv
\* C06: what is handed back to the top-level caller contains no tracer
NoLeak == \A th \in Threads : result[th].k = "val" => ~IsBox(result[th].v)
=============================================================================
