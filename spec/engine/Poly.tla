-------------------------------- MODULE Poly --------------------------------
(* Integer polynomials in NV variables (one variable per nesting level of differentiation), sparse:
   a polynomial is a function from exponent tuples (sequences of length NV) to NON-ZERO coefficients.
   This is the independent denotational oracle of the autograd abstract machine: derivatives are computed
   symbolically here, never by tracing. *)
EXTENDS Integers, Sequences, FiniteSets

NV == 4
Zero == [i \in 1..NV |-> 0]
Unit(i) == [j \in 1..NV |-> IF j = i THEN 1 ELSE 0]
EAdd(e, f) == [j \in 1..NV |-> e[j] + f[j]]

PZero == [e \in {} |-> 0]
PConst(c) == IF c = 0 THEN PZero ELSE [e \in {Zero} |-> c]
PVar(i) == [e \in {Unit(i)} |-> 1]

Coef(p, e) == IF e \in DOMAIN p THEN p[e] ELSE 0
Norm(D, f(_)) == LET S == {e \in D : f(e) # 0} IN [e \in S |-> f(e)]

PAdd(p, q) == LET D == DOMAIN p \cup DOMAIN q
                  c(e) == Coef(p, e) + Coef(q, e)
              IN Norm(D, c)
PScale(a, p) == IF a = 0 THEN PZero ELSE [e \in DOMAIN p |-> a * p[e]]
PNeg(p) == PScale(-1, p)

RECURSIVE SumFun(_)
SumFun(f) == IF DOMAIN f = {} THEN 0
             ELSE LET x == CHOOSE x \in DOMAIN f : TRUE IN f[x] + SumFun([y \in DOMAIN f \ {x} |-> f[y]])

PMul(p, q) == LET D == {EAdd(e, f) : e \in DOMAIN p, f \in DOMAIN q}
                  c(g) == LET pairs == {x \in (DOMAIN p) \X (DOMAIN q) : EAdd(x[1], x[2]) = g}
                          IN SumFun([x \in pairs |-> p[x[1]] * q[x[2]]])
              IN Norm(D, c)

\* d/dX_i
PDeriv(p, i) == LET S == {e \in DOMAIN p : e[i] > 0}
                    D == {[e EXCEPT ![i] = @ - 1] : e \in S}
                IN [g \in D |-> (g[i] + 1) * p[[g EXCEPT ![i] = @ + 1]]]

RECURSIVE PPow(_, _)
PPow(q, n) == IF n = 0 THEN PConst(1) ELSE PMul(q, PPow(q, n - 1))

\* substitute X_i := q   (q must not contain X_i)
RECURSIVE PSubstSet(_, _, _, _)
PSubstSet(p, S, i, q) ==
  IF S = {} THEN PZero
  ELSE LET e == CHOOSE e \in S : TRUE
           mono == [x \in {[e EXCEPT ![i] = 0]} |-> p[e]]
       IN PAdd(PMul(mono, PPow(q, e[i])), PSubstSet(p, S \ {e}, i, q))
PSubst(p, i, q) == PSubstSet(p, DOMAIN p, i, q)

IsConst(p) == DOMAIN p \subseteq {Zero}
ConstOf(p) == Coef(p, Zero)
Mentions(p, i) == \E e \in DOMAIN p : e[i] > 0

RECURSIVE IPow(_, _)
IPow(a, n) == IF n = 0 THEN 1 ELSE a * IPow(a, n - 1)
RECURSIVE ProdTo(_, _, _)
ProdTo(e, vals, j) == IF j = 0 THEN 1 ELSE IPow(vals[j], e[j]) * ProdTo(e, vals, j - 1)
PEval(p, vals) == SumFun([e \in DOMAIN p |-> p[e] * ProdTo(e, vals, NV)])
=============================================================================
