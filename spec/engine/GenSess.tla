------------------------------- MODULE GenSess -------------------------------
(* Export of call sessions of one VJP function: sequences of calls, each with a cotangent and an optional fault
   (the fault-th rule application of that call raises; 0 = none).  C10: "any number of times, in any order, with the
   same or different cotangents"; C19/C10: a failed call must not influence later ones. *)
EXTENDS Integers, Sequences, TLC, Json
CONSTANTS K, MaxFault
G == {1, 3}
Calls == [g : G, fault : 0..MaxFault]
VARIABLES sess, emitted
Init == sess \in UNION {[1..m -> Calls] : m \in 1..K} /\ emitted = FALSE
Next == ~emitted /\ emitted' = TRUE /\ UNCHANGED sess /\ PrintT(ToJson(sess))
Spec == Init /\ [][Next]_<<sess, emitted>>
=============================================================================
