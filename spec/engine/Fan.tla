--------------------------------- MODULE Fan ---------------------------------
(* High fan-out: ONE value consumed by K operations (a parameter used in every term of a long sum, a weight shared by every step of a
   loop).  The exhaustive graph spaces stop at 5-6 nodes; here the graph is a template of 2K+1 nodes with a closed-form result, so K can
   be in the hundreds (bookkeeping that counts consumers - child_counts in util.toposort - is exercised far beyond small integers).

   FanGraph(K, pat): node 1 = x;  node i+1 (i = 1..K) = op_i(x) with contribution kind pat[((i-1) % Len(pat)) + 1];
                     node K+2 = m_1 + m_2, node K+2+j = (node K+1+j) + m_{j+2}  (a chain of K-1 additions, both slots "alias"); output = last node.
   FanSum(K, pat) = SUM_i Weight(i+1, 1, kind_i)   - the lemma PathSum(FanGraph(K, pat), 1) = FanSum(K, pat) is model-checked for small K
   (MCFan), which ties the closed form used to judge the large instances to the general definition of Dags.tla. *)
EXTENDS Dags, TLC

KindAt(pat, i) == pat[((i - 1) % Len(pat)) + 1]
FanGraph(K, pat) ==
  [n \in 1..(IF K = 1 THEN 2 ELSE 2 * K) |->
     IF n = 1 THEN <<>>
     ELSE IF n <= K + 1 THEN << [p |-> 1, kd |-> KindAt(pat, n - 1)] >>
     ELSE IF n = K + 2 THEN << [p |-> 2, kd |-> "alias"], [p |-> 3, kd |-> "alias"] >>
     ELSE << [p |-> n - 1, kd |-> "alias"], [p |-> n - K + 1, kd |-> "alias"] >>]
\* the i-th term depends on i only through i mod 5 (the weight) and i mod Len(pat) (the kind): sum one period and multiply, so that K in
\* the thousands needs no deep recursion (TLC evaluates recursive functions on the Java stack)
SmallSum(m, pat) == LET F[i \in 0..m] == IF i = 0 THEN 0 ELSE F[i-1] + Weight(i + 1, 1, KindAt(pat, i)) IN F[m]
FanSum(K, pat) == LET P == 5 * Len(pat) IN (K \div P) * SmallSum(P, pat) + SmallSum(K % P, pat)
Patterns == {<<"alias">>, <<"fresh">>, <<"alias", "fresh">>, <<"fresh", "fresh", "alias">>}
=============================================================================
