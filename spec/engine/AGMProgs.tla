------------------------------ MODULE AGMProgs ------------------------------
(* Program families for the autograd abstract machine, enumerated by TLC. *)
EXTENDS Integers, Sequences, FiniteSets

R(u, r) == [up |-> u, r |-> r]
K(c) == [up |-> -1, r |-> c]
Prim(p, a) == [op |-> "prim", p |-> p, a |-> a]
Diff(m, b, at, seed) == [op |-> "diff", mode |-> m, b |-> b, at |-> at, seed |-> seed]
Ret(a) == [op |-> "ret", a |-> a]
Modes == {"vjp", "jvp"}

Single(bodies, input, warnerr) == [bodies |-> bodies, threads |-> <<[main |-> 1, input |-> input]>>, warnerr |-> warnerr,
                                   utable |-> <<>>, uscale |-> 1]

\* ---------------------------------------------------------------- nesting family (C07 / C08 / C14)
\* Level k (k = 1..depth) is body k+1; its own variable is its register 1; the variable of the enclosing level j < k
\* is R(k - j, 1).  A level's body is
\*      t  = product of own^eo * (enclosing variables in the chosen subset)     (constant 2 if the product is empty)
\*      d  = diff(mode_{k+1}, body k+2, at, seed = 1)                            (if k < depth)
\*      ret  t (+|*) d
\* `at` is the own variable, own + variable of the enclosing level (an inner point that depends on an outer variable),
\* or the constant 3 (the inner differentiation is then connected to the outer one only through its closure).
\* The choice for a level: [eo \in 0..2, outs \subseteq enclosing levels, at \in {"own","sum"}, comb \in {"add","mul"}]
LevelChoices(k, depth) ==
  [eo : 0..2, outs : SUBSET (1..(k-1)), at : IF k < depth /\ k > 1 THEN {"own", "sum", "const"}
                                             ELSE IF k < depth THEN {"own", "const"} ELSE {"own"},
   comb : IF k < depth THEN {"add", "mul"} ELSE {"add"}]

\* instruction list for the product term; returns [ins, reg] with reg = register holding the term (0 = constant 2)
TermIns(k, ch) ==
  LET factors == (IF ch.eo >= 1 THEN <<R(0, 1)>> ELSE <<>>) \o (IF ch.eo = 2 THEN <<R(0, 1)>> ELSE <<>>)
                 \o [i \in 1..Cardinality(ch.outs) |->
                       LET j == CHOOSE j \in ch.outs : Cardinality({x \in ch.outs : x < j}) = i - 1 IN R(k - j, 1)]
      n == Len(factors)
      \* register numbering: reg 1 = own variable; products occupy regs 2..n (n-1 multiplications)
      F[i \in 1..n] == IF i = 1 THEN <<>>
                       ELSE Append(F[i-1], Prim("mul", <<IF i = 2 THEN factors[1] ELSE R(0, i - 1), factors[i]>>))
  IN IF n = 0 THEN [ins |-> <<>>, ref |-> K(2), next |-> 2]
     ELSE IF n = 1 THEN [ins |-> <<>>, ref |-> factors[1], next |-> 2]
     ELSE [ins |-> F[n], ref |-> R(0, n), next |-> n + 1]

LevelBody(k, depth, ch, modeNext) ==
  LET t == TermIns(k, ch) IN
  IF k = depth THEN t.ins \o <<Ret(t.ref)>>
  ELSE LET atIns == IF ch.at = "sum" THEN <<Prim("add", <<R(0, 1), R(1, 1)>>)>> ELSE <<>>
           atRef == IF ch.at = "sum" THEN R(0, t.next) ELSE IF ch.at = "const" THEN K(3) ELSE R(0, 1)
           n2 == t.next + Len(atIns)
       IN t.ins \o atIns \o <<Diff(modeNext, k + 2, atRef, K(1)),
                              Prim(ch.comb, <<t.ref, R(0, n2)>>),
                              Ret(R(0, n2 + 1))>>

NestProgram(depth, modes, chs, input, warnerr) ==
  Single(<< <<Diff(modes[1], 2, R(0, 1), K(1)), Ret(R(0, 2))>> >> \o
         [k \in 1..depth |-> LevelBody(k, depth, chs[k], IF k < depth THEN modes[k + 1] ELSE "vjp")],
         input, warnerr)

NestFamily(depth, inputs) ==
  {NestProgram(depth, m, c, x, FALSE) :
     m \in [1..depth -> Modes], c \in {cc \in [1..depth -> UNION {LevelChoices(k, depth) : k \in 1..depth}] :
                                          \A k \in 1..depth : cc[k] \in LevelChoices(k, depth)}, x \in inputs}

Try(b) == [op |-> "try", b |-> b]
Call(b) == [op |-> "call", b |-> b]
If(c, bt, bf) == [op |-> "if", c |-> c, bt |-> bt, bf |-> bf]
Raise == [op |-> "raise"]
Mul(a, b) == Prim("mul", <<a, b>>)
Add(a, b) == Prim("add", <<a, b>>)

\* a thinner depth-3 family for the quick tier: own variable absent or squared, inner point own or constant, products only
NestFamilyQ(depth, inputs) ==
  {NestProgram(depth, m, c, x, FALSE) :
     m \in [1..depth -> Modes], c \in {cc \in [1..depth -> UNION {LevelChoices(k, depth) : k \in 1..depth}] :
                                          \A k \in 1..depth : /\ cc[k] \in LevelChoices(k, depth)
                                                                /\ cc[k].eo # 1 /\ cc[k].at # "sum"
                                                                /\ (k < depth => cc[k].comb = "mul")}, x \in inputs}

\* ---------------------------------------------------------------- fault family (C19, C08 after failures, C06)
\* A differentiation fails inside (a) a function that is itself being differentiated and catches the failure, or
\* (b) a top-level try; afterwards canary differentiations (nested, closing over the enclosing variable) run in the
\* same process.  Fault kinds: an exception at instruction 0/1/2 of the innermost body, a derivative rule raising during
\* the backward pass / tangent propagation (bomb), the "independent output" warning promoted to an error (exit fault).
FaultKinds == {"raise0", "raise1", "raise2", "bomb", "warn"}
\* innermost failing body, a function of z (register 1); y is the variable one static level up
FaultBody(fk) ==
  CASE fk = "raise0" -> <<Raise, Ret(R(0, 1))>>
    [] fk = "raise1" -> <<Mul(R(0, 1), R(0, 1)), Raise, Ret(R(0, 2))>>
    [] fk = "raise2" -> <<Mul(R(0, 1), R(0, 1)), Mul(R(0, 2), R(0, 1)), Raise, Ret(R(0, 3))>>
    [] fk = "bomb"   -> <<Prim("bomb", <<R(0, 1)>>), Mul(R(0, 2), R(0, 1)), Ret(R(0, 3))>>
    [] fk = "warn"   -> <<Ret(K(2))>>
\* canary inner body: z * z * y   (y one static level up)
CanaryInner == <<Mul(R(0, 1), R(0, 1)), Mul(R(0, 2), R(1, 1)), Ret(R(0, 3))>>

\* (a) caught inside the differentiated function:
\*   main(x):   r2 = diff(m1, 2, x, 1); ret r2
\*   2 (y):     r2 = try(3); r3 = diff(m2, 5, y, 1); r4 = r3 * y; ret r4          -> d/dy [2 y^2 * y] = 6 y^2
\*   3:         r1 = diff(m3, 4, y (one level up), 1); ret r1
\*   4 (z):     FaultBody
\*   5 (z):     CanaryInner
\* ck = "var": the canary's inner point is the enclosing variable; ck = "const": it is the constant 3, so that the inner
\* differentiation depends on the enclosing variable only through its closure  ( y * d/dz[z z y](3) = 6 y^2 )
AtOf(ck, ref) == IF ck = "const" THEN K(3) ELSE ref
FaultInner(m, fk, ck, x) ==
  Single(<< <<Diff(m[1], 2, R(0, 1), K(1)), Ret(R(0, 2))>>,
            <<Try(3), Diff(m[2], 5, AtOf(ck, R(0, 1)), K(1)), Mul(R(0, 3), R(0, 1)), Ret(R(0, 4))>>,
            <<Diff(m[3], 4, R(1, 1), K(1)), Ret(R(0, 1))>>,
            FaultBody(fk),
            CanaryInner >>, x, fk = "warn")
\* (b) the failure escapes from two nested differentiations and is caught at top level; then a nested canary:
\*   main(x):   r2 = try(2); r3 = diff(m1, 5, x, 1); ret r3
\*   2:         r1 = diff(m2, 3, x (one level up), 1); ret r1
\*   3 (y):     r2 = diff(m3, 4, y, 1); r3 = r2 * y; ret r3
\*   4 (z):     FaultBody
\*   5 (y):     r2 = diff(m2, 6, y, 1); r3 = r2 * y; ret r3
\*   6 (z):     CanaryInner
FaultTop(m, fk, ck, x) ==
  Single(<< <<Try(2), Diff(m[1], 5, R(0, 1), K(1)), Ret(R(0, 3))>>,
            <<Diff(m[2], 3, R(1, 1), K(1)), Ret(R(0, 1))>>,
            <<Diff(m[3], 4, R(0, 1), K(1)), Mul(R(0, 2), R(0, 1)), Ret(R(0, 3))>>,
            FaultBody(fk),
            <<Diff(m[2], 6, AtOf(ck, R(0, 1)), K(1)), Mul(R(0, 2), R(0, 1)), Ret(R(0, 3))>>,
            CanaryInner >>, x, fk = "warn")
\* (c) depth 3: the failure happens two levels below the function that catches it
\*   main(x):   r2 = diff(m1, 2, x, 1); ret r2
\*   2 (y):     r2 = try(3); r3 = diff(m2, 6, y, 1); r4 = r3 * y; ret r4
\*   3:         r1 = diff(m2, 4, y (up 1), 1); ret r1
\*   4 (u):     r2 = diff(m3, 5, u, 1); r3 = r2 * u; ret r3
\*   5 (z):     FaultBody            (its "y" is u)
\*   6 (z):     CanaryInner
FaultDeep(m, fk, ck, x) ==
  Single(<< <<Diff(m[1], 2, R(0, 1), K(1)), Ret(R(0, 2))>>,
            <<Try(3), Diff(m[2], 6, AtOf(ck, R(0, 1)), K(1)), Mul(R(0, 3), R(0, 1)), Ret(R(0, 4))>>,
            <<Diff(m[2], 4, R(1, 1), K(1)), Ret(R(0, 1))>>,
            <<Diff(m[3], 5, R(0, 1), K(1)), Mul(R(0, 2), R(0, 1)), Ret(R(0, 3))>>,
            FaultBody(fk),
            CanaryInner >>, x, fk = "warn")
\* (d) an uncaught failure ends one top-level call; the next top-level calls are canaries (history independence):
\*   main(x):   r2 = try(2); r3 = try(2); r4 = diff(m1, 5, x, 1); ret r4      (two failed calls in a row)
FaultTwice(m, fk, ck, x) ==
  LET p == FaultTop(m, fk, ck, x) IN
  [p EXCEPT !.bodies[1] = <<Try(2), Try(2), Diff(m[1], 5, R(0, 1), K(1)), Ret(R(0, 4))>>]

FaultFamily(inputs) ==
  UNION {{FaultInner(m, fk, ck, x), FaultTop(m, fk, ck, x), FaultDeep(m, fk, ck, x), FaultTwice(m, fk, ck, x)} :
           m \in [1..3 -> Modes], fk \in FaultKinds, ck \in {"var", "const"}, x \in inputs}

\* ---------------------------------------------------------------- control flow steered by traced values (C03)
\*   main(x): r2 = diff(m, 2, x, 1); ret r2
\*   2 (y):   r2 = y + c;  r3 = if r2 > 0 then call 3 else call 4;  r4 = r3 * y;  ret r4
\*   3:       ret y * y        4:  ret -y          (y one static level up, through the `if` activation: up = 1)
\* and a bounded "loop": the branch bodies are chained  (5: if again on r - 1 ...)
CtrlProgram(m, c, x) ==
  Single(<< <<Diff(m, 2, R(0, 1), K(1)), Ret(R(0, 2))>>,
            <<Add(R(0, 1), K(c)), If(R(0, 2), 3, 4), Mul(R(0, 3), R(0, 1)), Ret(R(0, 4))>>,
            <<Mul(R(1, 1), R(1, 1)), Ret(R(0, 1))>>,
            <<Prim("neg", <<R(1, 1)>>), Ret(R(0, 1))>> >>, x, FALSE)
\* recursion with fuel, unrolled: pow(y, n) by repeated conditional multiplication, n steered by a traced value
\*   2 (y):  r2 = y + c ; r3 = if r2 > 0 then call 3 else const 1 ; ret r3
\*   3:      r1 = (r2 of level 2) + (-1) ; r2 = if r1 > 0 then call 4 else const 1 ; r3 = r2 * y ; ret r3
\*   4:      ret y  (y two static levels up)
LoopProgram(m, c, x) ==
  Single(<< <<Diff(m, 2, R(0, 1), K(1)), Ret(R(0, 2))>>,
            <<Add(R(0, 1), K(c)), If(R(0, 2), 3, 5), Ret(R(0, 3))>>,
            <<Add(R(1, 2), K(-1)), If(R(0, 1), 4, 5), Mul(R(0, 2), R(1, 1)), Ret(R(0, 3))>>,
            <<Ret(R(2, 1))>>,
            <<Ret(K(1))>> >>, x, FALSE)
CtrlFamily(inputs) == {CtrlProgram(m, c, x) : m \in Modes, c \in {-3, 0, 3}, x \in inputs}
                      \cup {LoopProgram(m, c, x) : m \in Modes, c \in {-3, -1, 0}, x \in inputs}

\* ---------------------------------------------------------------- non-differentiable dependence (C14)
\*   main(x): r2 = diff(m1, 2, x, 1); ret r2
\*   2 (y):   r2 = nd(y); r3 = form(y, r2); [nested: r4 = diff(m2, 3, y, 1); r5 = r3 + r4]; ret
\*   3 (z):   r2 = nd(y up 1) ; r3 = z * r2 ; ret r3          -> d/dz = nd(y), constant w.r.t. y
NdProgram(m, form, nested, x) ==
  LET f == CASE form = "x*nd" -> Mul(R(0, 1), R(0, 2))       \* d/dy = nd(y)
             [] form = "nd+nd" -> Add(R(0, 2), R(0, 2))      \* independent
             [] form = "nd*nd" -> Mul(R(0, 2), R(0, 2))
  IN Single(<< <<Diff(m[1], 2, R(0, 1), K(1)), Ret(R(0, 2))>>,
               IF nested THEN <<Prim("nd", <<R(0, 1)>>), f, Diff(m[2], 3, R(0, 1), K(1)), Add(R(0, 3), R(0, 4)), Ret(R(0, 5))>>
                         ELSE <<Prim("nd", <<R(0, 1)>>), f, Ret(R(0, 3))>>,
               <<Prim("nd", <<R(1, 1)>>), Mul(R(0, 1), R(0, 2)), Ret(R(0, 3))>> >>, x, FALSE)
NdFamily(inputs) == {NdProgram(m, f, n, x) : m \in [1..2 -> Modes], f \in {"x*nd", "nd+nd", "nd*nd"}, n \in BOOLEAN, x \in inputs}

\* ---------------------------------------------------------------- pure higher order (C07): d^k/dx^k x^e, all 2^k mode sequences
RECURSIVE PowIns(_, _)
PowIns(e, i) == IF i > e THEN <<>> ELSE <<Mul(IF i = 2 THEN R(0, 1) ELSE R(0, i - 1), R(0, 1))>> \o PowIns(e, i + 1)
HoProgram(k, m, e, x) ==
  Single(<< <<Diff(m[1], 2, R(0, 1), K(1)), Ret(R(0, 2))>> >> \o
         [j \in 1..k |-> IF j < k THEN <<Diff(m[j + 1], j + 2, R(0, 1), K(1)), Ret(R(0, 2))>>
                         ELSE PowIns(e, 2) \o <<Ret(R(0, e))>>], x, FALSE)
\* sparse / dense mixing at higher order (C07, C11): the innermost body builds u = y^2, v = y^3, s = u + v (the rule of + hands the
\* SAME cotangent object to u and v), ss = s^2, and t = take(w)^2 where take is x[idx] over all entries (deferred scatter-add) of
\* w in {u, v, s}; the two terms are added in either order, so the scatter reaches its target before or after the dense contribution
MixBody(ord, tk, sw) ==
  << Mul(R(0, 1), R(0, 1)), Mul(R(0, 2), R(0, 1)), (IF sw THEN Add(R(0, 3), R(0, 2)) ELSE Add(R(0, 2), R(0, 3))), Mul(R(0, 4), R(0, 4)),
     Prim("take", <<R(0, tk)>>), Mul(R(0, 6), R(0, 6)), (IF ord = 0 THEN Add(R(0, 7), R(0, 5)) ELSE Add(R(0, 5), R(0, 7))), Ret(R(0, 8)) >>
MixProgram(k, m, body, x) ==
  Single(<< <<Diff(m[1], 2, R(0, 1), K(1)), Ret(R(0, 2))>> >> \o
         [j \in 1..k |-> IF j < k THEN <<Diff(m[j + 1], j + 2, R(0, 1), K(1)), Ret(R(0, 2))>> ELSE body], x, FALSE)
MixFamily(maxk) == UNION {{MixProgram(k, m, MixBody(o, t, sw), x) : m \in [1..k -> Modes], o \in {0, 1}, t \in {2, 3, 4}, sw \in BOOLEAN, x \in {2}} : k \in 1..maxk}
HoFamily(maxk, inputs) == UNION {{HoProgram(k, m, e, x) : m \in [1..k -> Modes], e \in 2..5, x \in inputs} : k \in 2..maxk}

\* ---------------------------------------------------------------- several threads on unrelated data (C20)
ShiftIns(i, k) == CASE i.op = "diff" -> [i EXCEPT !.b = @ + k]
                    [] i.op \in {"try", "call"} -> [i EXCEPT !.b = @ + k]
                    [] i.op = "if" -> [i EXCEPT !.bt = @ + k, !.bf = @ + k]
                    [] OTHER -> i
ShiftBodies(bs, k) == [b \in DOMAIN bs |-> [j \in DOMAIN bs[b] |-> ShiftIns(bs[b][j], k)]]
\* p and q are single-thread programs; the result runs p as thread 1 and q as thread 2
Par2(p, q) == [bodies |-> p.bodies \o ShiftBodies(q.bodies, Len(p.bodies)),
               threads |-> <<p.threads[1], [main |-> Len(p.bodies) + 1, input |-> q.threads[1].input]>>,
               warnerr |-> FALSE, utable |-> <<>>, uscale |-> 1]
Par3(p, q, r) == LET pq == Par2(p, q) IN
                 [bodies |-> pq.bodies \o ShiftBodies(r.bodies, Len(pq.bodies)),
                  threads |-> pq.threads \o <<[main |-> Len(pq.bodies) + 1, input |-> r.threads[1].input]>>,
                  warnerr |-> FALSE, utable |-> <<>>, uscale |-> 1]
\* per-thread programs: flat gradient of y*y; nested  d/dy [ y * d/dz (z z y)(y) ];  second derivative of x^3
FlatProg(m, x) == Single(<< <<Diff(m, 2, R(0, 1), K(1)), Ret(R(0, 2))>>, <<Mul(R(0, 1), R(0, 1)), Ret(R(0, 2))>> >>, x, FALSE)
NestedProg(m, ck, x) ==
  Single(<< <<Diff(m[1], 2, R(0, 1), K(1)), Ret(R(0, 2))>>,
            <<Diff(m[2], 3, AtOf(ck, R(0, 1)), K(1)), Mul(R(0, 2), R(0, 1)), Ret(R(0, 3))>>,
            CanaryInner >>, x, FALSE)
ThreadProgs == {FlatProg(m, 3) : m \in Modes} \cup {NestedProg(m, ck, 2) : m \in [1..2 -> Modes], ck \in {"var", "const"}}
               \cup {HoProgram(2, m, 3, 2) : m \in [1..2 -> Modes]}
\* at least one nested participant
ThreadFamily2 == {Par2(p, q) : p \in {NestedProg(m, ck, 2) : m \in [1..2 -> Modes], ck \in {"var", "const"}}, q \in ThreadProgs}
ThreadFamily2Small == {Par2(NestedProg(m, ck, 2), FlatProg(mm, 3)) : m \in {<<"vjp", "vjp">>, <<"jvp", "vjp">>}, ck \in {"var", "const"}, mm \in Modes}
\* every schedule of these is exported in the thorough tier: one nested thread against a flat or a second-order thread
ThreadFamily2Med == {Par2(NestedProg(m, ck, 2), q) : m \in [1..2 -> Modes], ck \in {"var", "const"},
                                                     q \in {FlatProg(mm, 3) : mm \in Modes} \cup {HoProgram(2, <<"jvp", "vjp">>, 3, 2)}}
ThreadFamily3 == {Par3(NestedProg(<<"vjp", "vjp">>, ck, 2), FlatProg(m, 3), HoProgram(2, <<m, "vjp">>, 3, 2)) : ck \in {"var", "const"}, m \in Modes}

\* ---------------------------------------------------------------- user-defined primitives (C17)
\* user(a1..an) = uscale * a1 * ... * an with a rule table.  Depth 1:
\*   main(x): r2 = diff(m, 2, x, 1); ret r2
\*   2 (y):   r2 = user(args)   each argument is y (the variable) or a constant 2, 3, ...;  ret r2
\* every arity 1..MaxN, every non-empty subset of differentiated positions, every table over {rule, zero, missing}
ExtArgs(n, S) == [i \in 1..n |-> IF i \in S THEN R(0, 1) ELSE K(i + 1)]
Ext1Program(m, n, S, tab, sc, x) ==
  [Single(<< <<Diff(m, 2, R(0, 1), K(1)), Ret(R(0, 2))>>,
             <<Prim("user", ExtArgs(n, S)), Ret(R(0, 2))>> >>, x, FALSE) EXCEPT !.utable = tab, !.uscale = sc]
Ext1Family(MaxN, inputs) ==
  UNION {{Ext1Program(m, n, S, tab, sc, x) : m \in Modes, S \in (SUBSET (1..n)) \ {{}}, tab \in [1..n -> {"rule", "zero", "missing"}],
                                            sc \in {1, 2}, x \in inputs} : n \in 1..MaxN}
\* Depth 2: arguments are assigned to trace levels: "z" own variable of the inner function, "y" the enclosing variable, "c" constant.
\*   main(x): r2 = diff(m1, 2, x, 1); ret r2
\*   2 (y):   r2 = diff(m2, 3, y, 1); r3 = r2 * y; ret r3
\*   3 (z):   r2 = user(args); ret r2
\* tables over {rule, missing}; a zero entry only for constant positions
Ext2Args(lv) == [i \in DOMAIN lv |-> CASE lv[i] = "z" -> R(0, 1) [] lv[i] = "y" -> R(1, 1) [] OTHER -> K(i + 1)]
Ext2Program(m, lv, tab, x) ==
  [Single(<< <<Diff(m[1], 2, R(0, 1), K(1)), Ret(R(0, 2))>>,
             <<Diff(m[2], 3, R(0, 1), K(1)), Mul(R(0, 2), R(0, 1)), Ret(R(0, 3))>>,
             <<Prim("user", Ext2Args(lv)), Ret(R(0, 2))>> >>, x, FALSE) EXCEPT !.utable = tab, !.uscale = 1]
Ext2Family(MaxN, inputs) ==
  UNION {{Ext2Program(m, lv, tab, x) : m \in [1..2 -> Modes],
                                      lv \in {l \in [1..n -> {"z", "y", "c"}] : \E i \in 1..n : l[i] # "c"},
                                      tab \in [1..n -> {"rule", "missing", "zero"}], x \in inputs} : n \in 1..MaxN}
  \ {p \in UNION {{Ext2Program(m, lv, tab, x) : m \in [1..2 -> Modes], lv \in [1..n -> {"z", "y", "c"}],
                                               tab \in [1..n -> {"rule", "missing", "zero"}], x \in inputs} : n \in 1..MaxN} :
        \E i \in DOMAIN p.utable : p.utable[i] = "zero" /\ p.bodies[3][1].a[i].up # -1}

\* ---------------------------------------------------------------- checkpoint (C17): ckpt(body)(args) == body(args)
\*   main(x): r2 = diff(m1, 2, x, 1); ret r2
\*   2 (y):   r2 = [diff(m2, 3, y, 1) | nothing]; r3 = ckpt(4)(y, r2 or 3); r4 = r3 * y; ret
\*   3 (z):   z * z * y
\*   4 (a, b): a * a * b + [nested ckpt(5)(a)]      5 (c): c * c
Ckpt(b, a) == [op |-> "ckpt", b |-> b, a |-> a]
\* inner = "const": the second argument of the checkpointed function is the constant 3 (the replay passes it by keyword)
CkptProgram(m, inner, nestedck, order, x) ==
  LET body4 == IF nestedck THEN <<Mul(R(0, 1), R(0, 1)), Mul(R(0, 3), R(0, 2)), Ckpt(5, <<R(0, 1)>>), Add(R(0, 4), R(0, 5)), Ret(R(0, 6))>>
                           ELSE <<Mul(R(0, 1), R(0, 1)), Mul(R(0, 3), R(0, 2)), Ret(R(0, 4))>>
      body2 == IF inner = "diff" THEN <<Diff(m[2], 3, R(0, 1), K(1)), Ckpt(4, <<R(0, 1), R(0, 2)>>), Mul(R(0, 3), R(0, 1)), Ret(R(0, 4))>>
               ELSE IF inner = "const" THEN <<Add(R(0, 1), K(1)), Ckpt(4, <<R(0, 1), K(3)>>), Mul(R(0, 3), R(0, 1)), Ret(R(0, 4))>>
               ELSE <<Add(R(0, 1), K(1)), Ckpt(4, <<R(0, 1), R(0, 2)>>), Mul(R(0, 3), R(0, 1)), Ret(R(0, 4))>>
      \* order 2/3: the whole thing differentiated again (reverse mode) by wrapping levels
      core == << body2, CanaryInner, body4, <<Mul(R(0, 1), R(0, 1)), Ret(R(0, 2))>> >>
  IN IF order = 1 THEN Single(<< <<Diff(m[1], 2, R(0, 1), K(1)), Ret(R(0, 2))>> >> \o core, x, FALSE)
     ELSE \* main -> level A (body 2) returns diff of level B (= old body 2, now body 3): all body indices shift by one
          Single(<< <<Diff(m[1], 2, R(0, 1), K(1)), Ret(R(0, 2))>>,
                    <<Diff("vjp", 3, R(0, 1), K(1)), Ret(R(0, 2))>> >> \o ShiftBodies(core, 1), x, FALSE)
\* checkpoint defines a VJP only (forward mode through it raises NotImplementedError, which the property does not exclude):
\* every level that encloses the checkpoint call is reverse mode; the differentiation nested inside is of either mode
CkptFamily(inputs) == {CkptProgram(<<"vjp", m2>>, i, n, o, x) : m2 \in Modes, i \in {"diff", "var", "const"}, n \in BOOLEAN, o \in {1, 2}, x \in inputs}
=============================================================================
