------------------------------- MODULE RevAbs -------------------------------
(* Abstract reverse pass: what ANY correct implementation of "make_vjp(f)(x)[0]" may do on a recorded graph.

   State: the recorded graph (closure data of the VJP function), the cotangent g0 of the current call,
   the set of nodes whose rule has been applied in the current call, the cotangent accumulated so far at
   every node, and the results handed back by completed calls.

   One action per rule application: ApplyVjp(n) is enabled iff n is an ancestor of the output, has not
   been applied in this call and every consumer of n has been applied (so acc[n] is complete).  Any
   topological order is allowed; how cotangents are stored and summed is not mentioned at all.
   A VJP function may be called again (NewCall): the graph never changes.

   Listed properties (C03 / C10 / C11-mixing) as invariants and action properties at the bottom. *)
EXTENDS Dags, TLC

VARIABLES args,      \* the graph (see Dags.tla); never changes
          live,      \* LiveOf(args), computed once
          g0,        \* cotangent passed to the current call
          applied,   \* nodes (other than the root) whose rule has been applied in the current call
          acc,       \* [node -> Int] cotangent accumulated so far
          returned,  \* has the current call handed back its result?
          results,   \* sequence of [g, r] for completed calls
          ncalls     \* number of calls started so far (completed or abandoned)
avars == <<args, live, g0, applied, acc, returned, results, ncalls>>

Out == Len(args)
Consumers(n) == {c \in live : n \in ParentsOf(args, c)}

StartAcc(g) == [k \in NodesOf(args) |-> IF k = Out THEN g ELSE 0]

AInit(graphs, G) ==
  /\ args \in graphs
  /\ live = LiveOf(args)
  /\ g0 \in G
  /\ applied = {}
  /\ acc = StartAcc(g0)
  /\ returned = FALSE
  /\ results = <<>>
  /\ ncalls = 1

Ready(n) == /\ n \in live /\ n # 1 /\ n \notin applied
            /\ Consumers(n) \subseteq applied

ApplyVjp(n) ==
  /\ ~returned
  /\ Ready(n)
  /\ applied' = applied \cup {n}
  /\ acc' = [p \in NodesOf(args) |-> IF p \in ParentsOf(args, n) THEN acc[p] + EdgeWeight(args, n, p) * acc[n] ELSE acc[p]]
  /\ UNCHANGED <<args, live, g0, returned, results, ncalls>>

\* the call hands back the cotangent of the root; only possible when every live node has been applied
Return ==
  /\ ~returned
  /\ applied = live \ {1}
  /\ returned' = TRUE
  /\ results' = Append(results, [g |-> g0, r |-> acc[1]])
  /\ UNCHANGED <<args, live, g0, applied, acc, ncalls>>

\* a rule raised (or the caller's cotangent was rejected): the call is abandoned, nothing is handed back;
\* the VJP function stays usable
Abort ==
  /\ ~returned
  /\ returned' = TRUE
  /\ UNCHANGED <<args, live, g0, applied, acc, results, ncalls>>

NewCall(g) ==
  /\ returned
  /\ g0' = g /\ applied' = {} /\ acc' = StartAcc(g) /\ returned' = FALSE /\ ncalls' = ncalls + 1
  /\ UNCHANGED <<args, live, results>>

ANext(G, MaxCalls) == \/ \E n \in NodesOf(args) : ApplyVjp(n)
                      \/ Return
                      \/ Abort
                      \/ (ncalls < MaxCalls /\ \E g \in G : NewCall(g))

\* ------------------------------------------------------------------ properties
\* C03: gradient = sum over dependency paths of the products of local derivatives, for every call (C10: as if alone)
ResultIsPathSum == \A i \in DOMAIN results : results[i].r = results[i].g * PathSum(args, 1)
\* C03: operations the output does not depend on are never differentiated
DeadNeverApplied == applied \subseteq live
\* C03: a rule is applied only after all consumers contributed  (holds by the guard; restated on the state)
OnlyAfterConsumers == \A n \in applied : Consumers(n) \subseteq applied
\* when a rule is applied its cotangent is the complete one
CompleteWhenApplied == \A n \in applied : acc[n] = g0 * PathSum(args, n)
\* C10: the closure data of a VJP function is immutable
ClosureImmutable == [][args' = args]_avars
=============================================================================
