------------------------------- MODULE FwdImpl -------------------------------
(* Implementation-shaped model of autograd's forward pass on the pinned tree:

     tracer.primitive.f_wrapped   one JVPNode per primitive call that has a tracer argument, in program order
     core.JVPNode.__init__        parent_gs = [parent.g ...]; self.g = jvpmaker(parent_argnums, parent_gs, value, args, kwargs)
     core.defjvp / defjvp_argnum  jvpmaker = sum_outgrads(rule(g) for argnum, g in zip(argnums, gs))     (argument order)
     core.sum_outgrads            reduce(add_outgrads, gs, None)[0]  - the SAME ownership protocol as the reverse pass:
                                  first contribution shared (not owned), second added into a fresh buffer, later ones added in place

   Tangents live in a heap of buffers with an owner ("user": the seed v handed in by the caller; "ag": allocated by autograd).
   A rule of kind "alias" hands back the tangent OBJECT of its argument (anp.add, reshape of a contiguous array, ...), so the buffer of a
   node's tangent may be the buffer of its parent's - an in-place addition into it would corrupt a tangent that other consumers of the
   parent still read.  Model mutant FwdFirstMutable: the first contribution of a fold is treated as owned. *)
EXTENDS FwdAbs

CONSTANT FwdFirstMutable

VARIABLES k,         \* node being constructed (2..N+1; N+1 = function returned)
          jpos,      \* next argument position of node k to look at
          accb,      \* buffer of the running sum of node k's contributions (0 = none yet)
          accm,      \* is that buffer owned by the fold?
          tb,        \* [node -> buffer] tangent buffer of finished nodes (0 = not a tracer)
          heap,      \* Seq([val, owner])
          wrotebad   \* an in-place addition hit a buffer that is the user's or another node's tangent
ivars == <<fvars, k, jpos, accb, accm, tb, heap, wrotebad>>

N == Len(args)

IInit(graphs, V) ==
  /\ FInit(graphs, V)
  /\ k = 2 /\ jpos = 1 /\ accb = 0 /\ accm = FALSE
  /\ tb = [n \in NodesOf(args) |-> IF n = 1 THEN 1 ELSE 0]
  /\ heap = << [val |-> v0, owner |-> "user"] >>
  /\ wrotebad = FALSE

SharedWithOther(b) == b = 1 \/ \E n \in NodesOf(args) : tb[n] = b

\* one step of the fold for argument position jpos of node k
Step ==
  /\ k <= N /\ jpos <= Len(args[k]) /\ ~fret
  /\ LET s == args[k][jpos] IN
     IF s.p \notin reach
       THEN \* a plain value: no rule is applied for this position
            /\ jpos' = jpos + 1
            /\ UNCHANGED <<fvars, k, accb, accm, tb, heap, wrotebad>>
       ELSE LET pb == tb[s.p]
                w == Weight(k, jpos, s.kd)
                cval == w * heap[pb].val
                \* the rule's result: the parent's tangent object itself, or a new buffer
                h1 == IF s.kd = "alias" THEN heap ELSE Append(heap, [val |-> cval, owner |-> "ag"])
                cb == IF s.kd = "alias" THEN pb ELSE Len(h1)
            IN /\ ApplyJvp(k, jpos)                                   \* the abstract action this step implements
               /\ IF accb = 0
                    THEN /\ accb' = cb /\ accm' = FwdFirstMutable /\ heap' = h1 /\ wrotebad' = wrotebad
                    ELSE IF accm
                      THEN \* vs.mut_add(prev, g): in place
                           /\ heap' = [h1 EXCEPT ![accb].val = @ + cval]
                           /\ wrotebad' = (wrotebad \/ SharedWithOther(accb))
                           /\ accb' = accb /\ accm' = TRUE
                      ELSE \* vs.add(prev, g): a fresh buffer
                           /\ heap' = Append(h1, [val |-> h1[accb].val + cval, owner |-> "ag"])
                           /\ accb' = Len(h1) + 1 /\ accm' = TRUE /\ wrotebad' = wrotebad
               /\ jpos' = jpos + 1
               /\ UNCHANGED <<k, tb>>

\* all positions seen: the node is finished (or was not a tracer at all)
Finish ==
  /\ k <= N /\ jpos > Len(args[k]) /\ ~fret
  /\ tb' = [tb EXCEPT ![k] = accb]
  /\ k' = k + 1 /\ jpos' = 1 /\ accb' = 0 /\ accm' = FALSE
  /\ UNCHANGED <<fvars, heap, wrotebad>>

\* the traced function returned: make_jvp hands back end_node.g (or zeros if the output is not a tracer)
Ret ==
  /\ k = N + 1 /\ ~fret
  /\ FReturn
  /\ UNCHANGED <<k, jpos, accb, accm, tb, heap, wrotebad>>

INext == Step \/ Finish \/ Ret

\* ---------------------------------------------------------------- invariants
NoBadWrite == ~wrotebad
UserSeedIntact == heap[1].val = v0
\* the stored tangent of every finished tracer IS its path sum - now and after every later step (nobody wrote into it)
StoredTangents == \A n \in NodesOf(args) : (n < k /\ n \in reach) => heap[tb[n]].val = v0 * FwdSum(args, n)
NonTracersHaveNone == \A n \in NodesOf(args) : (n < k /\ n \notin reach) => tb[n] = 0
\* eager: when the function returns, every differentiated position of every tracer has been applied exactly once
AllApplied == k = N + 1 => \A n \in reach \ {1} : \A j \in Boxed(n) : <<n, j>> \in fapplied
ImplResult == fret => fres = (IF N \in reach THEN heap[tb[N]].val ELSE 0)
=============================================================================
