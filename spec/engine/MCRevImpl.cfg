CONSTANTS N = 3 MaxAr = 2 WithConst = FALSE KindMode = "node" MaxCalls = 2
CONSTANTS CountPerNode = FALSE FirstMutable = FALSE MutAddNoneAliases = FALSE
SPECIFICATION Spec
INVARIANT OnceEach
INVARIANT DeadNeverApplied
INVARIANT AllLiveApplied
INVARIANT ResultIsPathSum
INVARIANT NoBadWrite
INVARIANT NoKeyError
INVARIANT AccIsDenseSum
PROPERTY UserMemoryIntact
PROPERTY AbsSpec
