------------------------------ MODULE MCRevAbs ------------------------------
EXTENDS RevAbs
CONSTANTS N, MaxAr, WithConst, KindMode, MaxCalls
Kinds == {"alias", "fresh", "sparse"}
G == {1, 3}
Init == AInit(DagSet(N, MaxAr, Kinds, WithConst, KindMode), G)
Next == ANext(G, MaxCalls)
Spec == Init /\ [][Next]_avars
=============================================================================
