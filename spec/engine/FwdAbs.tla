------------------------------- MODULE FwdAbs -------------------------------
(* Abstract forward pass: what ANY correct implementation of "make_jvp(f)(x)(v)" may do on a recorded graph.

   Forward mode is eager: the tangent of a value is computed when the value is.  One action per application of a JVP rule:
   ApplyJvp(k, j) - the rule of argument position j of node k, applied to the tangent of that argument - is enabled iff
     * position j of node k holds a value that depends on the input (it is a tracer of this differentiation),
     * the tangent of that parent is complete (the parent is the input, or all its own differentiated positions have been applied),
     * it has not been applied before.
   Nothing is said about the order between independent nodes, about how the contributions of one node are summed, or about
   whether nodes the output does not depend on are differentiated (an eager implementation does differentiate them; it must then do
   so correctly).  The result is handed back when every differentiated position of every node the OUTPUT depends on has been applied.

   tan[k] = tangent accumulated so far at node k, in units of the seed v0. *)
EXTENDS Dags, TLC

VARIABLES args,      \* the graph (Dags.tla); never changes
          reach,     \* nodes that depend on the input (node 1 included), computed once
          v0,        \* the tangent seed
          fapplied,  \* set of <<k, j>> whose JVP rule has been applied
          tan,       \* [node -> Int]
          fret       \* result handed back (0 = not yet; the result itself is kept in fres)
          , fres
fvars == <<args, reach, v0, fapplied, tan, fret, fres>>

\* forward reachability from the input
ReachOf(a) ==
  LET n == Len(a)
      F[i \in 1..n] == IF i = 1 THEN {1}
                       ELSE IF \E j \in DOMAIN a[i] : a[i][j].p \in F[i-1] THEN F[i-1] \cup {i} ELSE F[i-1]
  IN F[n]

\* d(node k)/d(input) as the sum over all dependency paths, forward recursion
RECURSIVE FwdSum(_, _)
FwdSum(a, k) == IF k = 1 THEN 1
                ELSE SumFn([j \in {jj \in DOMAIN a[k] : a[k][jj].p > 0} |-> Weight(k, j, a[k][j].kd) * FwdSum(a, a[k][j].p)])

Boxed(k) == {j \in DOMAIN args[k] : args[k][j].p \in reach}         \* positions of node k that hold tracers
Complete(p) == p = 1 \/ \A j \in Boxed(p) : <<p, j>> \in fapplied

FInit(graphs, V) ==
  /\ args \in graphs
  /\ reach = ReachOf(args)
  /\ v0 \in V
  /\ fapplied = {}
  /\ tan = [k \in NodesOf(args) |-> IF k = 1 THEN v0 ELSE 0]
  /\ fret = FALSE /\ fres = 0

JvpReady(k, j) ==
  /\ ~fret
  /\ k \in reach /\ k # 1 /\ j \in Boxed(k)
  /\ <<k, j>> \notin fapplied
  /\ Complete(args[k][j].p)

ApplyJvp(k, j) ==
  /\ JvpReady(k, j)
  /\ fapplied' = fapplied \cup {<<k, j>>}
  /\ tan' = [tan EXCEPT ![k] = @ + Weight(k, j, args[k][j].kd) * tan[args[k][j].p]]
  /\ UNCHANGED <<args, reach, v0, fret, fres>>

FLive == LiveOf(args) \cap reach
FReturn ==
  /\ ~fret
  /\ \A k \in FLive : Complete(k)
  /\ fret' = TRUE
  /\ fres' = IF Len(args) \in reach THEN tan[Len(args)] ELSE 0
  /\ UNCHANGED <<args, reach, v0, fapplied, tan>>

FNext == (\E k \in NodesOf(args) : \E j \in DOMAIN args[k] : ApplyJvp(k, j)) \/ FReturn

\* ---------------------------------------------------------------- properties
\* the tangent of a complete node is the path sum; the result is J v, and it is what the reverse pass computes (engine-level C04)
TangentIsPathSum == \A k \in reach : Complete(k) => tan[k] = v0 * FwdSum(args, k)
ResultIsJv == fret => fres = v0 * PathSum(args, 1)
ForwardEqualsReverse == FwdSum(args, Len(args)) = (IF Len(args) \in reach THEN PathSum(args, 1) ELSE FwdSum(args, Len(args)))
OnlyTracers == \A p \in fapplied : p[1] \in reach /\ p[2] \in Boxed(p[1])
=============================================================================
