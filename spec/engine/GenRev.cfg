CONSTANTS N = 3 MaxAr = 2 WithConst = TRUE KindMode = "edge" Family = "dag"
SPECIFICATION Spec
