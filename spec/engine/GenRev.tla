------------------------------- MODULE GenRev -------------------------------
(* Export of the graph space: one JSON line per graph, with the model's own PathSum and live set.
   The harness turns every line into a real program over logging primitives and runs it on /repo. *)
EXTENDS Dags, TLC, Json
CONSTANTS N, MaxAr, WithConst, KindMode, Family
Kinds == {"alias", "fresh", "sparse"}
VARIABLES args, emitted
Space == IF Family = "star" THEN StarSet(N, Kinds) ELSE IF Family = "share" THEN ShareSet(Kinds) ELSE DagSet(N, MaxAr, Kinds, WithConst, KindMode)
Init == args \in Space /\ emitted = FALSE
Next == /\ ~emitted /\ emitted' = TRUE /\ UNCHANGED args
        /\ PrintT(ToJson([args |-> args, ps |-> PathSum(args, 1), live |-> LiveOf(args)]))
Spec == Init /\ [][Next]_<<args, emitted>>
=============================================================================
