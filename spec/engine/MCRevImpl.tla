------------------------------ MODULE MCRevImpl ------------------------------
EXTENDS RevImpl
CONSTANTS N, MaxAr, WithConst, KindMode, MaxCalls
Kinds == {"alias", "fresh", "sparse"}
G == {1, 3}
Init == IInit(DagSet(N, MaxAr, Kinds, WithConst, KindMode), G)
Next == INext(G, MaxCalls)
Spec == Init /\ [][Next]_ivars
\* the initial condition is restated without re-enumerating the graph space for every initial state
AbsInit == /\ live = LiveOf(args) /\ g0 \in G /\ AbsAcc = Abs!StartAcc(g0) /\ ~returned /\ results = <<>> /\ ncalls = 1
           /\ \A k \in NodesOf(args) : called[k] = 0
AbsSpec == AbsInit /\ [][Abs!ANext(G, MaxCalls)]_(Abs!avars)
=============================================================================
