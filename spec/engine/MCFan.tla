-------------------------------- MODULE MCFan --------------------------------
EXTENDS Fan
CONSTANT MaxK
VARIABLES K, pat
Init == K \in 1..MaxK /\ pat \in Patterns
Next == UNCHANGED <<K, pat>>
Spec == Init /\ [][Next]_<<K, pat>>
Lemma == PathSum(FanGraph(K, pat), 1) = FanSum(K, pat)
=============================================================================
