CONSTANTS N = 4 MaxAr = 2 WithConst = FALSE KindMode = "node" MaxCalls = 1
SPECIFICATION Spec
INVARIANT ResultIsPathSum
INVARIANT DeadNeverApplied
INVARIANT OnlyAfterConsumers
INVARIANT CompleteWhenApplied
PROPERTY ClosureImmutable
