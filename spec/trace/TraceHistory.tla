---------------------------- MODULE TraceHistory ----------------------------
(* C19 at the level of the rule tables: the derivative matrices of a call configuration do not depend on which other configurations
   were differentiated before it in the same process.  Every configuration is evaluated in two processes that run the same list in
   opposite orders; a row carries the digests of the reverse- and forward-mode matrices from both runs (or the exception type). *)
EXTENDS Naturals, Sequences, TLC, Json, IOUtils
Obs == ndJsonDeserialize(IOEnv.TRACE_FILE)
VARIABLE i
Holds(o) == o.first = o.second
Init == i = 1
Next == /\ i <= Len(Obs)
        /\ (IF Holds(Obs[i]) THEN PrintT(<<"ACCEPT", Obs[i].id>>) ELSE TRUE)
        /\ i' = i + 1
Spec == Init /\ [][Next]_i
=============================================================================
