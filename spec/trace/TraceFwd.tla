------------------------------ MODULE TraceFwd ------------------------------
(* Trace validation for the forward pass: the JVP-rule applications recorded by the harness primitives during
   make_jvp(f)(x)(v) must be a behaviour of FwdAbs - every application is of a tracer position, happens once, only after the
   tangent of its argument is complete, and receives exactly that complete tangent; the result is J v = (path sum) * v.
   Built-in operators log nothing (opaque traces): only the result is bound.  Batched like TraceRev. *)
EXTENDS FwdAbs, Json, IOUtils

Traces == ndJsonDeserialize(IOEnv.TRACE_FILE)
VARIABLES tid, l
tvars == <<fvars, tid, l>>
T == Traces[tid]
Ev == T.fevents[l]

TInit ==
  /\ tid \in DOMAIN Traces
  /\ args = Traces[tid].args
  /\ reach = ReachOf(args)
  /\ v0 = 1
  /\ fapplied = {}
  /\ tan = [k \in NodesOf(args) |-> IF k = 1 THEN 1 ELSE 0]
  /\ fret = FALSE /\ fres = 0
  /\ l = 1

TApply == /\ l <= Len(T.fevents)
          /\ Ev.n \in NodesOf(args) /\ Ev.j \in DOMAIN args[Ev.n]
          /\ ApplyJvp(Ev.n, Ev.j)
          /\ Ev.g = tan[args[Ev.n][Ev.j].p] /\ Ev.g2 = 2 * tan[args[Ev.n][Ev.j].p]
          /\ l' = l + 1 /\ tid' = tid

\* built-in operators: the applications are silent steps, taken in node order
Silent == /\ T.opaque /\ l = 1 /\ T.fevents = <<>> /\ ~fret
          /\ \E k \in NodesOf(args) : \E j \in DOMAIN args[k] :
                /\ JvpReady(k, j)
                /\ \A k2 \in NodesOf(args) : \A j2 \in DOMAIN args[k2] : JvpReady(k2, j2) => (k < k2 \/ (k = k2 /\ j <= j2))
                /\ ApplyJvp(k, j)
          /\ UNCHANGED <<tid, l>>

TReturn == /\ l = Len(T.fevents) + 1 /\ ~fret
           /\ FReturn
           /\ T.jvp = fres' /\ T.jvp2 = 2 * fres'
           /\ T.fwd_intact
           /\ PrintT(<<"ACCEPT", T.id>>)
           /\ l' = l + 1 /\ tid' = tid

TNext == TApply \/ Silent \/ TReturn
TSpec == TInit /\ [][TNext]_tvars
=============================================================================
