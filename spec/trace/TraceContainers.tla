--------------------------- MODULE TraceContainers ---------------------------
(* Judge of container observations: the observed gradient (leaf by leaf, in flatten order) must be the one Containers.tla
   derives from the accesses, with the argument's structure; forward mode must give the matching directional derivative or
   raise; flatten / unflatten must be mutually inverse, ordered as FlattenOrder, and commute with grad. *)
EXTENDS Containers, Json, IOUtils
Obs == ndJsonDeserialize(IOEnv.TRACE_FILE)
VARIABLE i
Holds(o) == /\ o.err = ""
            /\ o.grad = GradFlat(o.tree, o.prog)
            /\ o.struct_ok
            /\ (o.jvp = "skip" \/ o.jvp = "raised" \/ o.jvp = o.jvp_want)
            /\ o.flat_ok /\ o.unflat_ok /\ o.commute_ok
            /\ o.val_ok                       \* the value computed while differentiating is the value of the plain call
\* C06 on containers: value transparency only
Transparent(o) == o.err # "" \/ o.val_ok
Init == i = 1
Next == /\ i <= Len(Obs)
        /\ (IF (IF IOEnv.PROP = "C06" THEN Transparent(Obs[i]) ELSE Holds(Obs[i])) THEN PrintT(<<"ACCEPT", Obs[i].id>>) ELSE TRUE)
        /\ i' = i + 1
Spec == Init /\ [][Next]_i
=============================================================================
