------------------------------ MODULE TraceAGM ------------------------------
(* The abstract machine as executable oracle and judge: for every program that was run on the real autograd
   (harness/agm_replay.py) the machine is run on the same program; the observed per-thread results must equal
   the program's denotational meaning (when the oracle defines one) - that is the property - and the machine's
   own result and trace-id log are compared as implementation-binding (drift) information. *)
EXTENDS AGM, AGMDen, Json, IOUtils

Traces == ndJsonDeserialize(IOEnv.TRACE_FILE)
VARIABLES tid, fin, pos
tvars == <<vars, tid, fin, pos>>
T == Traces[tid]

TInit == /\ tid \in DOMAIN Traces
         /\ MInit({Traces[tid].prog})
         /\ fin = FALSE /\ pos = 1

Done == \A th \in Threads : result[th].k # "none"

Obs(th) == T.obs[th]
\* the property: observed = meaning
DenOK(th) == LET d == Den(prog, th) IN
             \/ d.k = "unknown"
             \/ (d.k = "exc" /\ Obs(th).k = "exc")
             \/ (d.k = "val" /\ Obs(th).k = "val" /\ Obs(th).v = d.v)
\* implementation binding: observed = what the implementation-shaped machine computes
MachineOK(th) == \/ (result[th].k = "exc" /\ Obs(th).k = "exc")
                 \/ (result[th].k = "val" /\ Obs(th).k = "val" /\ Obs(th).v = Plain(result[th].v))
IdsOK(th) == T.ids[th] = log[th]

\* a single thread simply runs; several threads follow the recorded schedule (one entry per machine step)
TStep == /\ ~Done
         /\ IF T.sched = <<>> THEN MNext
            ELSE \E th \in Threads : /\ (pos <= Len(T.sched) => th = T.sched[pos])
                                     /\ Step(th)
         /\ pos' = pos + 1
         /\ UNCHANGED <<tid, fin>>
TFinish == /\ Done /\ ~fin /\ fin' = TRUE
           /\ \A th \in Threads : DenOK(th)
           /\ T.reg_ok                      \* C19: the rule tables / notrace sets / box and vspace registries are unchanged by the calls
           /\ PrintT(<<"ACCEPT", T.id>>)
           /\ (IF \A th \in Threads : MachineOK(th) /\ IdsOK(th) THEN TRUE ELSE PrintT(<<"DRIFT", T.id>>))
           /\ (IF \E th \in Threads : Den(prog, th).k = "unknown" THEN PrintT(<<"UNKNOWN", T.id>>) ELSE TRUE)
           /\ UNCHANGED <<vars, tid, pos>>
TNext == TStep \/ TFinish
TSpec == TInit /\ [][TNext]_tvars
=============================================================================
