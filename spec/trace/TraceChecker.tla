----------------------------- MODULE TraceChecker -----------------------------
(* Judge of check_grads observations: (a) the set of numerical comparisons it performed for (modes, order) is exactly the
   required one; (b) correct rules are never rejected; (c) a planted defect is rejected often enough. *)
EXTENDS Checker, Json, IOUtils
Obs == ndJsonDeserialize(IOEnv.TRACE_FILE)
VARIABLE i
ToSet(sq) == {sq[j] : j \in DOMAIN sq}
PathsOK(o) == LET req == {<<c[1], NameOf(c[2])>> : c \in Required(ToSet(o.modes), o.order)}
              IN {<<o.checks[j].mode, o.checks[j].name>> : j \in DOMAIN o.checks} = req
Holds(o) == CASE o.kind = "paths" -> PathsOK(o)
              [] o.kind = "correct" -> o.rejected = 0
              [] o.kind = "defect" -> o.rejected >= Threshold(o.n)
Init == i = 1
Next == /\ i <= Len(Obs)
        /\ (IF Holds(Obs[i]) THEN PrintT(<<"ACCEPT", Obs[i].id>>) ELSE TRUE)
        /\ i' = i + 1
Spec == Init /\ [][Next]_i
=============================================================================
