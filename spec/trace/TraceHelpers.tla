----------------------------- MODULE TraceHelpers -----------------------------
(* Judge of the real helper functions: what unbroadcast / broadcast / repeat_to_match_shape returned for the TLC-generated tensors must
   be exactly the adjoint of broadcasting, broadcasting itself, and the adjoint of the sum (recomputed here from the index-level
   definitions, not from the transcriptions). *)
EXTENDS Helpers, Json, IOUtils
Obs == ndJsonDeserialize(IOEnv.TRACE_FILE)
VARIABLE i
Want(o) == CASE o.kind = "unbroadcast" -> [s |-> o.t, f |-> FlatOf(AdjBroadcast(Gen(o.r, 1), o.r, o.t), o.t)]
             [] o.kind = "broadcast" -> [s |-> o.r, f |-> FlatOf(BroadcastMap(Gen(o.t, 2), o.t, o.r), o.r)]
             [] OTHER -> [s |-> o.t, f |-> FlatOf(AdjSum(Gen(ReduceShape(o.t, o.ax, o.keep), 3), o.t, o.ax, o.keep), o.t)]
NRed(o) == Size(o.t) \div Size(ReduceShape(o.t, o.ax, FALSE))
Holds(o) == /\ o.err = ""
            /\ o.gotshape = Want(o).s /\ o.got = Want(o).f
            /\ (o.kind = "repeat" /\ o.t # <<>> => o.reps = NRed(o))
Init == i = 1
Next == /\ i <= Len(Obs)
        /\ (IF Holds(Obs[i]) THEN PrintT(<<"ACCEPT", Obs[i].id>>) ELSE TRUE)
        /\ i' = i + 1
Spec == Init /\ [][Next]_i
=============================================================================
