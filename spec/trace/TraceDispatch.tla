---------------------------- MODULE TraceDispatch ----------------------------
EXTENDS Dispatch, Json, IOUtils
Obs == ndJsonDeserialize(IOEnv.TRACE_FILE)
VARIABLE i
Init == i = 1
Next == /\ i <= Len(Obs)
        /\ (IF (IF Obs[i].nd THEN NdOK(Obs[i]) ELSE IF Obs[i].guard THEN GuardOK(Obs[i]) ELSE RowOK(Obs[i])) THEN PrintT(<<"ACCEPT", Obs[i].id>>) ELSE TRUE)
        /\ (IF Obs[i].nd \/ Obs[i].guard \/ PredictedOK(Obs[i]) THEN TRUE ELSE PrintT(<<"DRIFT", Obs[i].id>>))
        /\ i' = i + 1
Spec == Init /\ [][Next]_i
=============================================================================
