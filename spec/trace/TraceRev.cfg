SPECIFICATION TSpec
INVARIANT ResultIsPathSum
INVARIANT DeadNeverApplied
INVARIANT OnlyAfterConsumers
INVARIANT CompleteWhenApplied
