---------------------------- MODULE TraceContract ----------------------------
(* TLC as the judge of recorded observations: one step per observation; an observation is accepted iff the contract of
   the property under check (IOEnv.PROP) holds for it.  ShapeCalcOK failures are printed separately (spec error). *)
EXTENDS Contract, TLC, Json, IOUtils

Obs == ndJsonDeserialize(IOEnv.TRACE_FILE)
Prop == IOEnv.PROP
VARIABLE i
Init == i = 1
Next == /\ i <= Len(Obs)
        /\ (IF Holds(Prop, Obs[i]) THEN PrintT(<<"ACCEPT", Obs[i].id>>) ELSE TRUE)
        /\ (IF ShapeCalcOK(Obs[i]) THEN TRUE ELSE PrintT(<<"SHAPECALC", Obs[i].id>>))
        /\ i' = i + 1
Spec == Init /\ [][Next]_i
=============================================================================
