--------------------------- MODULE TraceRevStruct ---------------------------
(* Structure-only trace validation of backward passes recorded from executions the harness did not construct (the repository's
   own test-suite under passive probes on core.backward_pass and the nodes' vjp attributes): the order in which the rules of the
   BUILT-IN primitives were applied must be a behaviour of RevAbs - each node at most once, only after all of its consumers, never
   a node the output does not depend on, and all of them before the pass returns.  Values are not recorded. *)
EXTENDS RevAbs, Json, IOUtils
Traces == ndJsonDeserialize(IOEnv.TRACE_FILE)
VARIABLES tid, l
tvars == <<avars, tid, l>>
T == Traces[tid]
TInit == /\ tid \in DOMAIN Traces
         /\ args = Traces[tid].args /\ live = LiveOf(args)
         /\ g0 = 1 /\ applied = {} /\ acc = StartAcc(1) /\ returned = FALSE /\ results = <<>> /\ ncalls = 1
         /\ l = 1
TApply == /\ l <= Len(T.order)
          /\ T.order[l] \in NodesOf(args) \ {1}
          /\ ApplyVjp(T.order[l])
          /\ l' = l + 1 /\ tid' = tid
\* the root's (empty) rule is applied last in the real code; it is not an abstract action
TRoot == /\ l <= Len(T.order) /\ T.order[l] = 1
         /\ applied = live \ {1}
         /\ l' = l + 1 /\ UNCHANGED <<avars, tid>>
TFinish == /\ l = Len(T.order) + 1 /\ ~returned
           /\ Return
           /\ PrintT(<<"ACCEPT", T.id>>)
           /\ l' = l + 1 /\ tid' = tid
TNext == TApply \/ TRoot \/ TFinish
TSpec == TInit /\ [][TNext]_tvars
=============================================================================
