---------------------------- MODULE TraceOperators ----------------------------
(* Judge of operator observations: the observed result must have exactly the shape and the entries that Operators.tla
   derives from the one ground-truth Jacobian / Hessian, and the untouched primal / auxiliary values must come back. *)
EXTENDS Operators, Json, IOUtils
Obs == ndJsonDeserialize(IOEnv.TRACE_FILE)
VARIABLE i
Holds(o) == /\ o.err = ""
            /\ LET e == Expected(o.op, o.ins, o.outs, o.scale) IN o.shape = e.shape /\ o.flat = e.flat
            /\ o.extra_ok
\* C06 on the operators: whatever primal / auxiliary value an operator hands back is the plain call's value (entries, shape, type);
\* whether the DERIVATIVE is right is C16's business
Transparent(o) == o.err # "" \/ o.extra_ok
Init == i = 1
Next == /\ i <= Len(Obs)
        /\ (IF (IF IOEnv.PROP = "C06" THEN Transparent(Obs[i]) ELSE Holds(Obs[i])) THEN PrintT(<<"ACCEPT", Obs[i].id>>) ELSE TRUE)
        /\ i' = i + 1
Spec == Init /\ [][Next]_i
=============================================================================
