------------------------------ MODULE TraceFan ------------------------------
(* Judge of high fan-out runs (Fan.tla): reverse mode, forward mode and jacobian() of the template graph must all give FanSum. *)
EXTENDS Fan, Json, IOUtils
Obs == ndJsonDeserialize(IOEnv.TRACE_FILE)
VARIABLE i
Holds(o) == LET s == FanSum(o.K, o.pat) IN
  /\ o.err = ""
  /\ o.rev = <<o.g * s, 2 * o.g * s>>            \* cotangent (g, 2g) on the two components
  /\ o.rev_again = o.rev                          \* the same VJP function applied a second time
  /\ o.fwd = <<s, 2 * s>>
  /\ o.intact
Init == i = 1
Next == /\ i <= Len(Obs)
        /\ (IF Holds(Obs[i]) THEN PrintT(<<"ACCEPT", Obs[i].id>>) ELSE TRUE)
        /\ i' = i + 1
Spec == Init /\ [][Next]_i
=============================================================================
