------------------------------ MODULE TraceMisc ------------------------------
(* Judge of the observations of autograd.misc (harness/misc_replay.py).

   kind = "opt": one run of sgd / rmsprop / adam (through unflatten_optimizer) from a starting point x0 of some structure and memory
   layout.  The optimizers are ordinary users of the library: what C10 says about memory holds for them too -
     Ownership:  the starting point is bit-for-bit unchanged, what the callback was handed in an earlier iteration does not change in a
                 later one, the result shares no memory with the starting point; and the iterates are those of the update rule.

   kind = "fp": the fixed_point primitive (sqrt(a) as the fixed point of three iteration maps whose x-derivative depends on a),
   differentiated one, two and three times, and with an inner derivative that closes over the outer variable -
     NestedExact: value and derivatives of order 1..3 equal the closed forms, the closure pattern a * d/db sqrt(a b)|b=1 differentiates
                  to 0.75 sqrt(a), nothing handed back is a tracer (C08: every level differentiates its own variable only; C07). *)
EXTENDS Naturals, Sequences, TLC, Json, IOUtils
Obs == ndJsonDeserialize(IOEnv.TRACE_FILE)
VARIABLE i
Ownership(o) == o.err = "" /\ o.value_ok /\ o.struct_ok /\ o.x0_intact /\ o.cb_intact /\ o.no_alias
NestedExact(o) == o.err = "" /\ o.value_ok /\ o.d1_ok /\ o.d2_ok /\ o.d3_ok /\ o.closure_ok /\ o.fwd_over_ok /\ o.nobox
Holds(o) == IF o.kind = "opt" THEN Ownership(o) ELSE NestedExact(o)
Init == i = 1
Next == /\ i <= Len(Obs)
        /\ (IF Holds(Obs[i]) THEN PrintT(<<"ACCEPT", Obs[i].id>>) ELSE TRUE)
        /\ i' = i + 1
Spec == Init /\ [][Next]_i
=============================================================================
