----------------------------- MODULE TraceVSpace -----------------------------
(* Judge of recorded vector-space observations: every operation of the real vspace must return exactly what the
   algebra VSpaceAlg defines, the axioms must hold ON THE OBSERVED RESULTS, accumulation into 'nothing' must be fresh,
   and two spaces are equal exactly when their structures are. *)
EXTENDS VSpaceAlg, Json, IOUtils

Obs == ndJsonDeserialize(IOEnv.TRACE_FILE)
VARIABLE i
\* dtype tags that denote the same space: a Python float / NumPy float64 scalar lives in the space of a 0-d float64 array
NormDT(d) == CASE d \in {"pyfloat", "npfloat64scalar"} -> "float64" [] d = "pycomplex" -> "complex128" [] OTHER -> d
RECURSIVE Norm(_)
Norm(sp) == IF sp.k = "arr" THEN [k |-> "arr", shape |-> sp.shape, dt |-> NormDT(sp.dt)]
            ELSE IF sp.k = "dict" THEN [k |-> "dict", keys |-> sp.keys, items |-> [j \in DOMAIN sp.items |-> Norm(sp.items[j])]]
            ELSE [k |-> sp.k, items |-> [j \in DOMAIN sp.items |-> Norm(sp.items[j])]]
\* structural equality without comparing records of different shapes
RECURSIVE SameSpace(_, _)
SameSpace(s, t) ==
  /\ s.k = t.k
  /\ IF s.k = "arr" THEN s.shape = t.shape /\ NormDT(s.dt) = NormDT(t.dt)
     ELSE /\ Len(s.items) = Len(t.items)
          /\ (s.k = "dict" => s.keys = t.keys)
          /\ \A j \in DOMAIN s.items : SameSpace(s.items[j], t.items[j])

Holds(o) ==
  /\ o.err = ""
  /\ InSpace(o.x, o.sp) /\ InSpace(o.y, o.sp) /\ InSpace(o.z, o.sp)
  \* operations agree with the algebra
  /\ o.add = Add(o.x, o.y) /\ o.add_yx = Add(o.y, o.x) /\ o.add3 = Add(Add(o.x, o.y), o.z)
  /\ o.mut_add3 = Add(Add(o.x, o.y), o.z)                       \* in-place accumulation agrees with addition
  /\ o.mut_add_xy = Add(o.x, o.y) /\ o.y_intact                 \* ... also into a vector the caller built (immutable scalar leaves); the addend is never written to
  /\ o.fresh /\ o.x_intact                                      \* accumulating into 'nothing' is fresh; arguments untouched
  /\ o.smul = SMul(o.x, o.a)
  /\ o.inner = Inner(o.x, o.y) /\ o.inner_yx = o.inner /\ o.inner_real
  /\ o.inner_scaled_ok                                          \* homogeneity beyond the range of a double for extended-precision leaves
  /\ o.cov = Cov(o.x) /\ o.covcov = o.x
  /\ o.zeros = Zeros(o.sp) /\ o.ones = Ones(o.sp)
  /\ o.size = RDim(o.sp)
  /\ o.basis = Basis(o.sp)
  \* the axioms on the observed values
  /\ AxZero(o.sp, o.x) /\ Add(o.zeros, o.x) = o.x
  /\ AxInnerPosDef(o.sp, o.x)
  /\ Len(o.basis) = o.size
  /\ o.closed                                                   \* every result lies in the space of the operands (container type and space)
  \* equality of spaces
  /\ \A j \in DOMAIN o.eqs : o.eqs[j].eq = SameSpace(o.sp, o.eqs[j].sp) /\ o.eqs[j].eq_rev = o.eqs[j].eq /\ o.eqs[j].ne = ~o.eqs[j].eq   \* != is the negation of ==

\* C10 on the vector-space layer: accumulation never writes into memory it was not handed as the accumulator, and accumulating
\* into 'nothing' yields memory nobody else holds
Ownership(o) ==
  /\ o.err = ""
  /\ o.fresh /\ o.x_intact /\ o.y_intact
  /\ o.mut_add3 = Add(Add(o.x, o.y), o.z) /\ o.mut_add_xy = Add(o.x, o.y)

Init == i = 1
Next == /\ i <= Len(Obs)
        /\ (IF (IF IOEnv.PROP = "C10" THEN Ownership(Obs[i]) ELSE Holds(Obs[i])) THEN PrintT(<<"ACCEPT", Obs[i].id>>) ELSE TRUE)
        /\ i' = i + 1
Spec == Init /\ [][Next]_i
=============================================================================
