------------------------------ MODULE TraceRev ------------------------------
(* Trace validation for the reverse pass: every recorded execution of the real autograd (events logged by the
   harness primitives through the public extension API) must be a behaviour of RevAbs.

   One JVM validates a whole batch: the initial state picks a trace id, so every trace is an independent
   behaviour.  A trace is accepted iff its <<"ACCEPT", tid>> line is printed (all events consumed by RevAbs
   actions, terminal conditions hold).  Unlogged variables (applied, acc) are reconstructed by the spec's
   own actions; logged fields (g, slots, results, intactness) are bound to them. *)
EXTENDS RevAbs, Json, IOUtils

Traces == ndJsonDeserialize(IOEnv.TRACE_FILE)

VARIABLES tid, l
tvars == <<avars, tid, l>>

T == Traces[tid]
Ev == T.events[l]

TInit ==
  /\ tid \in DOMAIN Traces
  /\ args = Traces[tid].args
  /\ live = LiveOf(args)
  /\ Traces[tid].events[1].e = "call"
  /\ g0 = Traces[tid].events[1].g
  /\ applied = {} /\ acc = StartAcc(g0) /\ returned = FALSE /\ results = <<>> /\ ncalls = 1
  /\ l = 2

IsEv(e) == /\ l <= Len(T.events) /\ Ev.e = e
           /\ l' = l + 1 /\ tid' = tid

\* the argument positions of node n that hold differentiated values, in order
RealSlotSeq(n) == LET F[j \in 0..Len(args[n])] ==
                        IF j = 0 THEN <<>> ELSE IF args[n][j].p > 0 THEN Append(F[j-1], j) ELSE F[j-1]
                  IN F[Len(args[n])]

\* a rule application was logged: it must be an enabled ApplyVjp, on the complete cotangent, for exactly the
\* differentiated argument positions
TApply == /\ IsEv("apply")
          /\ ~T.opaque
          /\ Ev.n \in NodesOf(args)
          /\ ApplyVjp(Ev.n)
          /\ Ev.g = acc[Ev.n] /\ Ev.g2 = 2 * acc[Ev.n]
          /\ Ev.slots = RealSlotSeq(Ev.n)

\* built-in operators log nothing: the rule applications are silent steps (taken in a fixed order - every
\* order gives the same final state, the abstract spec allows all of them)
Silent == /\ T.opaque
          /\ l <= Len(T.events) /\ Ev.e = "ret"
          /\ \E n \in NodesOf(args) : /\ Ready(n)
                                      /\ \A m \in NodesOf(args) : Ready(m) => n <= m
                                      /\ ApplyVjp(n)
          /\ UNCHANGED <<tid, l>>

TReturn == /\ IsEv("ret")
           /\ Return
           /\ Ev.r = acc[1] /\ Ev.r2 = 2 * acc[1]
           /\ Ev.shape = <<2>>
           /\ Ev.intact

TAbort == /\ IsEv("raise")
          /\ Abort
          /\ Ev.intact

TCall == /\ IsEv("call")
         /\ NewCall(Ev.g)

\* terminal conditions: forward mode gives the same Jacobian; jacobian() maps one closure over the basis
TFinish == /\ l = Len(T.events) + 1
           /\ returned
           /\ T.jvp = PathSum(args, 1) /\ T.jvp2 = 2 * PathSum(args, 1) /\ T.fwd_intact
           /\ (T.jac # <<>> => T.jac = <<PathSum(args, 1), 0, 0, PathSum(args, 1)>>)
           \* second order on the same graph: z = sum(F(x)^2), Hessian 2 ps^2 I; reverse-over-reverse, forward-over-reverse and
           \* reverse-over-forward Hessian-vector products with v = (1, 2) all equal (2 ps^2, 4 ps^2); the first-order gradient
           \* 2 ps F(x), evaluated while an outer differentiation traces it, is bound to the recorded value F(x) = (val, val2) (last two entries)
           /\ (T.hvp # <<>> => LET h == 2 * PathSum(args, 1) * PathSum(args, 1) IN T.hvp = <<h, 2 * h, h, 2 * h, h, 2 * h, 2 * PathSum(args, 1) * T.val, 2 * PathSum(args, 1) * T.val2>>)
           /\ PrintT(<<"ACCEPT", T.id>>)
           /\ l' = l + 1 /\ UNCHANGED <<avars, tid>>

TNext == TApply \/ Silent \/ TReturn \/ TAbort \/ TCall \/ TFinish
TSpec == TInit /\ [][TNext]_tvars
=============================================================================
