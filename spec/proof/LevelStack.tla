---------------------------- MODULE LevelStack ----------------------------
EXTENDS Integers, Sequences, TLAPS
(* The level discipline of TraceStack for UNBOUNDED nesting depth and any number of failures (lemma behind C08 / C19):
   `top` is the depth counter, `active` the ids of the traces that are currently open in one thread (innermost last).
     Enter            new_trace(): top += 1, the new trace gets id top
     ExitNormal       normal exit of the with-block: top -= 1
     ExitByException  an exception unwinds k >= 1 open traces; the pinned code has no try/finally, so top is NOT restored
   Theorem Safety: the ids of the open traces are always strictly increasing from outermost to innermost - "highest id =
   innermost" holds whatever failed before.  Proved with TLAPS (tlapm), all obligations discharged. *)

VARIABLES top, active

Init == top = -1 /\ active = <<>>
Enter == /\ top' = top + 1
         /\ active' = Append(active, top + 1)
ExitNormal == /\ Len(active) > 0
              /\ top' = top - 1
              /\ active' = SubSeq(active, 1, Len(active) - 1)
ExitByException == /\ Len(active) > 0
                   /\ \E k \in 1..Len(active) : active' = SubSeq(active, 1, Len(active) - k)
                   /\ top' = top
Next == Enter \/ ExitNormal \/ ExitByException
vars == <<top, active>>
Spec == Init /\ [][Next]_vars

Increasing == \A i, j \in DOMAIN active : i < j => active[i] < active[j]
IndInv == /\ top \in Int /\ top >= -1
          /\ active \in Seq(Int)
          /\ Increasing
          /\ \A i \in DOMAIN active : active[i] <= top /\ active[i] >= 0
          /\ Len(active) <= top + 1

THEOREM InitInv == Init => IndInv
  BY DEF Init, IndInv, Increasing

THEOREM StepInv == IndInv /\ [Next]_vars => IndInv'
<1> SUFFICES ASSUME IndInv, [Next]_vars PROVE IndInv'
  OBVIOUS
<1>1. CASE Enter
  <2>1. active' \in Seq(Int) /\ Len(active') = Len(active) + 1
        /\ \A i \in 1..Len(active) : active'[i] = active[i]
        /\ active'[Len(active)+1] = top + 1
    BY <1>1 DEF Enter, IndInv
  <2>2. DOMAIN active' = 1..(Len(active)+1) /\ DOMAIN active = 1..Len(active)
    BY <2>1 DEF IndInv
  <2> QED BY <1>1, <2>1, <2>2 DEF Enter, IndInv, Increasing
<1>2. CASE ExitNormal
  <2>1. active' \in Seq(Int) /\ Len(active') = Len(active) - 1
        /\ \A i \in 1..(Len(active)-1) : active'[i] = active[i]
    BY <1>2 DEF ExitNormal, IndInv
  <2>2. DOMAIN active' = 1..(Len(active)-1) /\ DOMAIN active = 1..Len(active)
    BY <2>1 DEF IndInv
  <2>3. \A i \in DOMAIN active' : active'[i] <= top - 1
    <3> SUFFICES ASSUME NEW i \in DOMAIN active' PROVE active'[i] <= top - 1
      OBVIOUS
    <3>1. i < Len(active) /\ i \in DOMAIN active /\ Len(active) \in DOMAIN active
      BY <2>2, <1>2 DEF ExitNormal, IndInv
    <3>2. active[i] < active[Len(active)] /\ active[Len(active)] <= top
      BY <3>1 DEF IndInv, Increasing
    <3> QED BY <3>1, <3>2, <2>1, <2>2 DEF IndInv
  <2>4. top' \in Int /\ top' >= -1 /\ Len(active') <= top' + 1
    BY <1>2, <2>1 DEF ExitNormal, IndInv
  <2>5. Increasing'
    BY <2>1, <2>2 DEF IndInv, Increasing
  <2>6. \A i \in DOMAIN active' : active'[i] <= top' /\ active'[i] >= 0
    BY <1>2, <2>1, <2>2, <2>3 DEF ExitNormal, IndInv
  <2> QED BY <2>1, <2>4, <2>5, <2>6 DEF IndInv
<1>3. CASE ExitByException
  <2> PICK k \in 1..Len(active) : active' = SubSeq(active, 1, Len(active) - k)
    BY <1>3 DEF ExitByException
  <2>1. active' \in Seq(Int) /\ Len(active') = Len(active) - k
        /\ \A i \in 1..(Len(active)-k) : active'[i] = active[i]
    BY DEF IndInv
  <2>2. DOMAIN active' = 1..(Len(active)-k) /\ DOMAIN active = 1..Len(active)
    BY <2>1 DEF IndInv
  <2> QED BY <1>3, <2>1, <2>2 DEF ExitByException, IndInv, Increasing
<1>4. CASE UNCHANGED vars
  BY <1>4 DEF vars, IndInv, Increasing
<1> QED BY <1>1, <1>2, <1>3, <1>4 DEF Next

THEOREM Safety == Spec => []Increasing
<1>1. IndInv => Increasing BY DEF IndInv
<1> QED BY InitInv, StepInv, <1>1, PTL DEF Spec
=============================================================================