------------------------------- MODULE Checker -------------------------------
(* Control structure of autograd.test_util.check_grads (C18).

   check_grads(f, modes, order):  if "fwd" in modes: check_jvp(f); if order > 1: recurse on jvp_f with order - 1
                                  if "rev" in modes: check_vjp(f); if order > 1: recurse on vjp_f with order - 1
   A CHECK is <<mode, derived>> where derived is the sequence of modes by which the checked function was derived from f
   (<<>> = f itself, <<"fwd">> = the function (x, v) -> jvp of f, ...).  The implementation names the derived function
   "jvp_" / "vjp_" + name, so the observed checks can be read off the function names.

   Specification: every mode sequence of length 1..order over the requested modes is compared against a numerical
   derivative: the check <<s[Len(s)], Front(s)>> happens for every such s, and nothing else happens. *)
EXTENDS Integers, Sequences, FiniteSets, TLC

Modes == {"fwd", "rev"}

\* the procedure, transcribed
RECURSIVE Run(_, _, _)
Run(derived, modes, order) ==
  UNION {{<<m, derived>>} \cup (IF order > 1 THEN Run(Append(derived, m), modes, order - 1) ELSE {}) : m \in modes}

\* the specification
SeqsOfLen(S, n) == [1..n -> S]
Front(s) == SubSeq(s, 1, Len(s) - 1)
Required(modes, order) == {<<s[Len(s)], Front(s)>> : s \in UNION {SeqsOfLen(modes, n) : n \in 1..order}}

EveryModePathChecked(modes, order) == Run(<<>>, modes, order) = Required(modes, order)

\* name of a derived function as the implementation builds it: the LAST derivation is the outermost prefix
RECURSIVE NameOf(_)
NameOf(derived) == IF derived = <<>> THEN <<>> ELSE <<IF derived[Len(derived)] = "fwd" THEN "jvp" ELSE "vjp">> \o NameOf(Front(derived))

\* rejection threshold for n independent runs of a checker that must reject with probability >= 0.99:
\* fewer rejections than this has probability < 1e-9 if the property holds (binomial tail), so it is reported
Threshold(n) == IF n >= 400 THEN n - 22 ELSE IF n >= 100 THEN n - 12 ELSE IF n >= 40 THEN n - 8 ELSE n - 6
=============================================================================
