----------------------------- MODULE MCOperators -----------------------------
EXTENDS Operators, Json
CONSTANT Export
VARIABLES op, ins, outs, lay, scale, emitted
vars == <<op, ins, outs, lay, scale, emitted>>
Init == /\ op \in Ops /\ ins \in InShapes /\ outs \in OutShapes /\ Applicable(op, ins, outs)
        /\ lay \in {l \in Layouts : ValidLayout(l)} /\ scale \in {1, 2}
        /\ (scale = 2 => lay.kw)
        /\ (lay.neg => op \in NegOps)
        /\ emitted = FALSE
Next == /\ ~emitted /\ emitted' = TRUE /\ UNCHANGED <<op, ins, outs, lay, scale>>
        /\ (Export => PrintT(ToJson([op |-> op, ins |-> ins, outs |-> outs, lay |-> lay, scale |-> scale, exp |-> Expected(op, ins, outs, scale)])))
Spec == Init /\ [][Next]_vars
Identities == /\ IdEgradIsColumnSum(ins, outs, scale)
              /\ (outs = <<>> => IdGradIsJacobian(ins, scale) /\ IdHessianSymmetric(ins, scale))
              /\ (outs = <<>> /\ Size(ins) <= 4 => IdHessianIsJacOfGrad(ins, scale))
              /\ Len(Expected(op, ins, outs, scale).flat) = Size(Expected(op, ins, outs, scale).shape)
=============================================================================
