------------------------------ MODULE Containers ------------------------------
(* Nested tuples / lists / dicts of leaves, the access operations autograd differentiates through, and flattening (C12).

   A TREE is  [k |-> "leaf"]  |  [k |-> "tuple" | "list", items |-> <<tree, ..>>]  |  [k |-> "dict", keys |-> <<"a", ..>> (sorted), items |-> <<tree, ..>>].
   A leaf is identified by its canonical position path (sequence of 1-based child positions from the root).
   An ACCESS is a sequence of steps from the root to a leaf, each step one of the operations a user can write:
      [s |-> "idx", i]        c[i]  (i may be negative)                      sequences
      [s |-> "slice", a, b, i]   c[a:b][i]                                   sequences  (container_take with a slice, then an index)
      [s |-> "iter", i]       the i-th value produced by iterating over c     sequences (values), dicts via .values()
      [s |-> "unpack", i]     a, b, .. = c ; the i-th                          sequences
      [s |-> "catr", i]       (c + (extra,))[i]                               sequences  (sequence_extend_right)
      [s |-> "catl", i]       ((extra,) + c)[i + 1]                           sequences  (sequence_extend_left)
      [s |-> "catr0", i]      (c + ())[i]  /  [s |-> "catl0", i]  (() + c)[i]  concatenation with an EMPTY sequence
      [s |-> "resplit", a, i] (c[:a] + c[a:])[i]   for every split point a = 0..len(c) (both parts traced; a = 0 or len(c): one of them empty)
      [s |-> "key", i]        c[key_i]                                        dicts
      [s |-> "get", i]        c.get(key_i)                                    dicts
      [s |-> "items", i]      list(c.items())[i][1]  in key order             dicts
   Every step selects child number Child(step, node) - the operations differ in the code path, not in what they select.
   A PROGRAM is a sequence of weighted accesses; the function is  SUM_a weight_a * lenfactor_a * sum(leaf(a)), where lenfactor
   is len(c) of the root when the access asks for it (len is a plain, non-differentiable query).
   The gradient is the tree of the same structure whose leaf p holds the sum of the weights of the accesses that reach p. *)
EXTENDS Integers, Sequences, FiniteSets, TLC

Leaf == [k |-> "leaf"]
Seq2(kind, items) == [k |-> kind, items |-> items]
Dict(keys, items) == [k |-> "dict", keys |-> keys, items |-> items]

\* ---- tree family
T0 == {Leaf}
SeqOver(S, maxar) == {Seq2(kind, it) : kind \in {"tuple", "list"}, it \in UNION {[1..m -> S] : m \in 0..maxar}}
DictOver(S) == {Dict(<<>>, <<>>)} \cup {Dict(<<"a">>, <<c>>) : c \in S} \cup {Dict(<<"a", "b">>, <<c, d>>) : c \in S, d \in S}
T1 == SeqOver(T0, 3) \cup DictOver(T0)
T2small == SeqOver(T0 \cup {Seq2("tuple", <<Leaf, Leaf>>), Seq2("list", <<Leaf>>), Dict(<<"a", "b">>, <<Leaf, Leaf>>), Seq2("tuple", <<>>)}, 2)
           \cup DictOver(T0 \cup {Seq2("tuple", <<Leaf, Leaf>>), Seq2("list", <<>>), Dict(<<"a">>, <<Leaf>>)})
Trees(depth) == IF depth = 1 THEN T1 ELSE T1 \cup T2small

RECURSIVE LeafPaths(_, _)
LeafPaths(t, prefix) == IF t.k = "leaf" THEN <<prefix>>
                        ELSE LET F[i \in 0..Len(t.items)] == IF i = 0 THEN <<>> ELSE F[i-1] \o LeafPaths(t.items[i], Append(prefix, i))
                             IN F[Len(t.items)]
\* flatten order: children in order (dict values in sorted-key order): the vector misc.flatten produces
FlattenOrder(t) == LeafPaths(t, <<>>)

RECURSIVE Sub(_, _)
Sub(t, p) == IF p = <<>> THEN t ELSE Sub(t.items[Head(p)], Tail(p))

\* ---- steps
IsSeq(t) == t.k \in {"tuple", "list"}
StepsAt(t) ==
  IF t.k = "leaf" THEN {}
  ELSE IF IsSeq(t) THEN
     LET n == Len(t.items) IN
     {[s |-> "idx", i |-> i] : i \in (-n)..(n - 1)}
     \cup {st \in {[s |-> "slice", a |-> a, b |-> b, i |-> i] : a \in 0..n, b \in 0..n, i \in 0..(n - 1)} : st.a + st.i < st.b}
     \cup {[s |-> k, i |-> i] : k \in {"iter", "unpack", "catr", "catl", "catr0", "catl0"}, i \in 0..(n - 1)}
     \cup {[s |-> "resplit", a |-> a, i |-> i] : a \in 0..n, i \in 0..(n - 1)}
  ELSE LET n == Len(t.items) IN {[s |-> k, i |-> i] : k \in {"key", "get", "items", "iter"}, i \in 0..(n - 1)}
Child(st, t) == CASE st.s = "idx" -> (IF st.i < 0 THEN Len(t.items) + st.i + 1 ELSE st.i + 1)
                  [] st.s = "slice" -> st.a + st.i + 1
                  [] OTHER -> st.i + 1

\* all accesses (step sequences) from the root of t to a leaf
RECURSIVE Accesses(_)
Accesses(t) == IF t.k = "leaf" THEN {<<>>}
               ELSE UNION {{<<st>> \o rest : rest \in Accesses(t.items[Child(st, t)])} : st \in StepsAt(t)}
RECURSIVE Resolve(_, _)
Resolve(t, acc) == IF acc = <<>> THEN <<>> ELSE <<Child(Head(acc), t)>> \o Resolve(t.items[Child(Head(acc), t)], Tail(acc))

\* ---- programs and their gradients
\* term = [acc, w, uselen]
TermValue(t, term) == term.w * (IF term.uselen THEN Len(t.items) ELSE 1)
GradAt(t, prog, p) == LET F[i \in 0..Len(prog)] == IF i = 0 THEN 0
                                                   ELSE F[i-1] + (IF Resolve(t, prog[i].acc) = p THEN TermValue(t, prog[i]) ELSE 0)
                      IN F[Len(prog)]
\* gradient in flatten order
GradFlat(t, prog) == LET ps == FlattenOrder(t) IN [j \in 1..Len(ps) |-> GradAt(t, prog, ps[j])]

\* ---- flatten laws on the model: unflatten(flatten(v)) = v ; flatten linear ; grad(f o unflatten) = flatten(grad f)
\* (values are functions from leaf paths to integers; flatten is the reindexing along FlattenOrder)
FlattenVal(t, val) == LET ps == FlattenOrder(t) IN [j \in 1..Len(ps) |-> val[ps[j]]]
UnflattenVal(t, vec) == LET ps == FlattenOrder(t) IN [p \in {ps[j] : j \in DOMAIN ps} |-> vec[CHOOSE j \in DOMAIN ps : ps[j] = p]]
FlattenLaws(t) ==
  LET ps == FlattenOrder(t)
      P == {ps[j] : j \in DOMAIN ps}
      v1 == [p \in P |-> Len(p) * 3 + (IF p = <<>> THEN 0 ELSE p[1])]
      v2 == [p \in P |-> 7 - Len(p)]
  IN /\ Cardinality(P) = Len(ps)                                    \* every leaf exactly once
     /\ UnflattenVal(t, FlattenVal(t, v1)) = v1                      \* mutually inverse
     /\ FlattenVal(t, [p \in P |-> 2 * v1[p] + 3 * v2[p]]) = [j \in DOMAIN ps |-> 2 * FlattenVal(t, v1)[j] + 3 * FlattenVal(t, v2)[j]]   \* linear
=============================================================================
