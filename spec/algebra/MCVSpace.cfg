CONSTANTS Depth = 1 Export = FALSE
SPECIFICATION Spec
INVARIANT Axioms
INVARIANT Typed
