----------------------------- MODULE MCContainers -----------------------------
EXTENDS Containers, Json
CONSTANTS Depth, Export, Pairs
VARIABLES tree, prog, outmode, whole, emitted
vars == <<tree, prog, outmode, whole, emitted>>
Weights == {2, -3}
Terms(t) == {[acc |-> a, w |-> w, uselen |-> u] : a \in Accesses(t), w \in Weights, u \in BOOLEAN}
\* programs: one term, or two terms (the second with the other weight, so that contributions to one leaf add up)
Init == /\ tree \in Trees(Depth)
        /\ prog \in {<<>>} \cup {<<x>> : x \in Terms(tree)}
                    \cup (IF Pairs THEN {<<x, y>> : x \in {tt \in Terms(tree) : tt.w = 2 /\ ~tt.uselen}, y \in {tt \in Terms(tree) : tt.w = -3}} ELSE {})
        /\ outmode \in {"scalar", "tuple", "list", "dict"}
        /\ (outmode # "scalar" => Len(prog) >= 1)
        \* whole: the root container is first used AS A WHOLE three times (it is nested three times in a new list and the terms read it
        \* back from there): the gradient is the same, but it reaches the root as whole-container cotangents that are accumulated
        /\ whole \in BOOLEAN
        /\ emitted = FALSE
Next == /\ ~emitted /\ emitted' = TRUE /\ UNCHANGED <<tree, prog, outmode, whole>>
        /\ (Export => PrintT(ToJson([tree |-> tree, prog |-> prog, outmode |-> outmode, whole |-> whole, grad |-> GradFlat(tree, prog),
                                      order |-> FlattenOrder(tree), nleaves |-> Len(FlattenOrder(tree))])))
Spec == Init /\ [][Next]_vars
Laws == FlattenLaws(tree)
\* the gradient only has entries at leaves that are accessed, and the total of all entries is the total weight
GradSane == LET g == GradFlat(tree, prog)
                F[i \in 0..Len(g)] == IF i = 0 THEN 0 ELSE F[i-1] + g[i]
                G[i \in 0..Len(prog)] == IF i = 0 THEN 0 ELSE G[i-1] + TermValue(tree, prog[i])
            IN F[Len(g)] = G[Len(prog)]
=============================================================================
