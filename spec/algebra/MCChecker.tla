------------------------------ MODULE MCChecker ------------------------------
EXTENDS Checker
VARIABLES modes, order
Init == modes \in (SUBSET Modes) \ {{}} /\ order \in 1..4
Next == UNCHANGED <<modes, order>>
Spec == Init /\ [][Next]_<<modes, order>>
Inv == EveryModePathChecked(modes, order)
=============================================================================
