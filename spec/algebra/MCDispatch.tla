------------------------------ MODULE MCDispatch ------------------------------
(* the decision table under the assumption the code makes: everything registered as notrace is locally constant *)
EXTENDS Dispatch
VARIABLES kind, boxed, lc
Init == kind \in Kinds /\ boxed \in BOOLEAN /\ lc \in BOOLEAN /\ (kind \in {"notrace_reg", "notrace_wrap"} => lc)
Next == UNCHANGED <<kind, boxed, lc>>
Spec == Init /\ [][Next]_<<kind, boxed, lc>>
Inv == NoSilentDrop(kind, boxed, lc)
=============================================================================
