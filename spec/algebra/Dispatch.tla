------------------------------- MODULE Dispatch -------------------------------
(* What happens when an exported callable meets a differentiated (boxed) positional argument (C15, part of C14).

   Decision table of tracer.primitive / notrace_primitive / wrap_namespace, as a function of the callable's kind:
     "prim_rule"     @primitive with a rule registered for this argnum and mode      -> a node is recorded ("node")
     "prim_norule"   @primitive without such a rule                                  -> NotImplementedError ("raise")
     "notrace_reg"   @primitive registered with register_notrace for the node type    -> computed on the unboxed value ("constant")
     "notrace_wrap"  notrace_primitive wrapper (type/shape/dtype queries)             -> computed on the unboxed value ("constant")
     "unwrapped"     anything wrap_namespace left alone (classes, non-callables)     -> sees the box itself ("opaque")
   The requirement (NoSilentDrop): the outcome "constant" is only acceptable for callables that are locally constant in
   that argument (piecewise-constant or integer/boolean valued).  Whether a callable IS locally constant is a fact about
   NumPy, observed by the harness with plain NumPy (tiny perturbations of either sign never change the float output).

   A recorded row of the sweep is judged by RowOK below. *)
EXTENDS Integers, Sequences, TLC

Kinds == {"prim_rule", "prim_norule", "notrace_reg", "notrace_wrap", "unwrapped"}
Outcome(kind, boxed) ==
  IF ~boxed THEN "plain"
  ELSE CASE kind = "prim_rule" -> "node"
         [] kind = "prim_norule" -> "raise"
         [] kind \in {"notrace_reg", "notrace_wrap"} -> "constant"
         [] kind = "unwrapped" -> "opaque"

\* the model of the requirement on the decision table itself
NoSilentDrop(kind, boxed, locallyConstant) == Outcome(kind, boxed) = "constant" => locallyConstant

\* ---- judgement of one recorded row:
\*   varies       the float output of the plain NumPy function changes under every tiny perturbation of this argument
\*   outcome      "raised" | "derivative" | "zero" (independent output: zero derivative / plain value)
\*   agrees       (outcome = derivative) directional derivative matches a stable finite difference (gross disagreement only)
\*   stable       the finite-difference reference is trustworthy at this point
RowOK(r) ==
  /\ (r.varies /\ r.outcome = "zero") => FALSE                 \* silently treated as a constant although the value depends on it
  /\ (r.outcome = "derivative" /\ r.stable) => r.agrees         \* silently wrong
\* a guard case (an unsupported request) must fail loudly
GuardOK(r) == r.outcome = "raised"
\* a non-differentiable (integer/boolean valued or piecewise constant) function called on a traced value (C14): it returns a plain value
\* equal to NumPy's, and blocks derivative flow: d/dx sum(x * f(x)) = f(x)
NdOK(r) == r.plain_eq /\ r.unboxed /\ r.blocks
\* implementation binding: the observed outcome is the one the decision table predicts from the registries (drift only)
PredictedOK(r) == \/ r.kind = "unknown"
                  \/ (Outcome(r.kind, TRUE) = "node" /\ r.outcome \in {"derivative", "raised"})      \* a rule may still refuse an option
                  \/ (Outcome(r.kind, TRUE) = "raise" /\ r.outcome = "raised")
                  \/ (Outcome(r.kind, TRUE) = "constant" /\ r.outcome = "zero")
                  \/ (Outcome(r.kind, TRUE) = "opaque")
=============================================================================
