CONSTANTS Depth = 1 Export = FALSE Pairs = TRUE
SPECIFICATION Spec
INVARIANT Laws
INVARIANT GradSane
