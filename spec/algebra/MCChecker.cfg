SPECIFICATION Spec
INVARIANT Inv
