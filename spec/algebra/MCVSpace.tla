------------------------------ MODULE MCVSpace ------------------------------
EXTENDS VSpaceAlg, Json
CONSTANTS Depth, Export
VARIABLES sp, x, y, z, a, b, emitted
vars == <<sp, x, y, z, a, b, emitted>>
Init == /\ sp \in Spaces(Depth)
        /\ x \in Vecs(sp) /\ y \in Vecs(sp) /\ z \in {Pattern(sp, 2), Zeros(sp)}
        /\ a \in {2, -3} /\ b \in {-1}
        /\ emitted = FALSE
\* the expected results of every operation, computed by the model, travel with the case
Next == /\ ~emitted /\ emitted' = TRUE /\ UNCHANGED <<sp, x, y, z, a, b>>
        /\ (Export => PrintT(ToJson([sp |-> sp, x |-> x, y |-> y, z |-> z, a |-> a, b |-> b,
                                      add |-> Add(x, y), add3 |-> Add(Add(x, y), z), smul |-> SMul(x, a), inner |-> Inner(x, y),
                                      cov |-> Cov(x), zeros |-> Zeros(sp), ones |-> Ones(sp), size |-> RDim(sp), basis |-> Basis(sp),
                                      nslots |-> NSlots(sp)])))
Spec == Init /\ [][Next]_vars
Axioms == AllAxioms(sp, x, y, z, a, b)
Typed == InSpace(x, sp) /\ InSpace(y, sp) /\ InSpace(z, sp) /\ InSpace(Add(x, y), sp) /\ InSpace(SMul(x, a), sp) /\ InSpace(Cov(x), sp)
=============================================================================
