------------------------------ MODULE Operators ------------------------------
(* All differential operators of the autograd package against ONE ground-truth Jacobian (C16).

   The test function is given by integer tensors, so everything is exact:
       f_k(x) = scale * ( SUM_i A[k][i] x_i  +  SUM_{i,j} B[k][i][j] x_i x_j )  +  (sum of the other positional arguments) + kwarg shift
   with x flattened row-major (n = Size(in shape)), k ranging over the flattened output (m = Size(out shape)).
       J[k][i]    = scale * ( A[k][i] + SUM_j (B[k][i][j] + B[k][j][i]) x_j )
       H[k][i][j] = scale * ( B[k][i][j] + B[k][j][i] )
   Each operator is a contraction of J / H; its result is [shape, flat] with the documented index order (out ++ in). *)
EXTENDS Integers, Sequences, FiniteSets, TLC

Size(s) == LET F[i \in 0..Len(s)] == IF i = 0 THEN 1 ELSE F[i-1] * s[i] IN F[Len(s)]
A(k, i) == ((3 * k + 2 * i) % 5) - 2
B(k, i, j) == ((k + 2 * i + 3 * j) % 3) - 1
X(i) == i + 1                         \* the point
V(i) == ((2 * i) % 3) - 1             \* a direction / cotangent

SumTo(n, f(_)) == LET F[i \in 0..n] == IF i = 0 THEN 0 ELSE F[i-1] + f(i) IN F[n]

Jac(k, i, n, scale) == scale * (A(k, i) + SumTo(n, LAMBDA j : (B(k, i, j) + B(k, j, i)) * X(j)))
Hes(k, i, j, scale) == scale * (B(k, i, j) + B(k, j, i))
Fval(k, n, scale, shift) == scale * (SumTo(n, LAMBDA i : A(k, i) * X(i)) + SumTo(n, LAMBDA i : SumTo(n, LAMBDA j : B(k, i, j) * X(i) * X(j)))) + shift

\* row-major flat tensors
Mat(m, n, e(_, _)) == [q \in 1..(m * n) |-> e(((q - 1) \div n) + 1, ((q - 1) % n) + 1)]
Vec(n, e(_)) == [q \in 1..n |-> e(q)]

\* operators of operators: the *secondary* outputs of an operator (the auxiliary value of grad_and_aux, the value of value_and_grad,
\* the primal handed back by make_vjp / make_jvp) are still functions of x when the operator is called inside another differentiation,
\* so an outer Jacobian / JVP taken through them is the ground-truth Jacobian again
ThruOps == {"jac_thru_aux", "jac_thru_value", "jac_thru_vjp_primal", "jvp_thru_jvp_primal", "jvp_thru_aux", "grad_thru_aux_and_grad"}
Ops == {"jacobian", "grad", "elementwise_grad", "hessian", "hessian_vector_product", "hessian_tensor_product", "tensor_jacobian_product",
        "vector_jacobian_product", "make_ggnvp", "deriv", "make_jvp", "make_jvp_reversemode", "value_and_grad", "grad_and_aux",
        "make_vjp", "holomorphic_grad", "grad_named", "multigrad_dict", "make_hvp", "jacobian_of_jacobian",
        "grad_tuple", "grad_list", "value_and_grad_tuple", "make_vjp_tuple"} \cup ThruOps
\* container-valued argnum: the function gets a second differentiated argument y of shape (2,) that enters as  + <C, y>  with
\* C = (3, -2); the operator returns a tuple (grad wrt x, grad wrt y); expected flat = J(1, .) ++ C
CVec == <<3, -2>>

\* which operators are defined for which (in shape, out shape)
Applicable(op, ins, outs) ==
  CASE op \in {"grad_tuple", "grad_list", "value_and_grad_tuple", "make_vjp_tuple"} -> outs = <<>>
    \* grad-like operators accept any output of SIZE 1 (shape (), (1,), (1,1)): the gradient has the argument's shape, the value handed
    \* back by value_and_grad keeps the output's own shape and type
    [] op \in {"grad", "value_and_grad", "grad_and_aux"} -> Size(outs) = 1
    [] op \in {"hessian", "hessian_vector_product", "hessian_tensor_product", "grad_named", "multigrad_dict",
               "make_hvp", "holomorphic_grad"} -> outs = <<>>
    [] op \in {"jac_thru_value", "grad_thru_aux_and_grad"} -> outs = <<>>
    [] op = "deriv" -> TRUE          \* for a non-scalar argument: the forward derivative along the all-ones direction
    [] op = "make_ggnvp" -> Len(outs) = 1          \* the default g reduces over the last axis only
    [] op = "elementwise_grad" -> TRUE
    [] op = "jacobian_of_jacobian" -> Size(ins) * Size(ins) * Size(outs) <= 16
    [] OTHER -> TRUE

\* expected result [shape, flat]
Expected(op, ins, outs, scale) ==
  LET n == Size(ins)  m == Size(outs)
      J(k, i) == Jac(k, i, n, scale)
  IN CASE op \in {"jacobian", "jac_thru_aux", "jac_thru_vjp_primal"} -> [shape |-> outs \o ins, flat |-> Mat(m, n, J)]
       [] op = "jac_thru_value" -> [shape |-> ins, flat |-> Vec(n, LAMBDA i : J(1, i))]
       [] op \in {"jvp_thru_jvp_primal", "jvp_thru_aux"} -> [shape |-> outs, flat |-> Vec(m, LAMBDA k : SumTo(n, LAMBDA i : J(k, i) * V(i)))]
       \* d/dx [ <V, grad f(x)> + 2 aux(x) ]  with aux = f :   H V + 2 J
       [] op = "grad_thru_aux_and_grad" -> [shape |-> ins, flat |-> Vec(n, LAMBDA i : SumTo(n, LAMBDA j : Hes(1, i, j, scale) * V(j)) + 2 * J(1, i))]
       [] op \in {"grad_tuple", "grad_list", "value_and_grad_tuple", "make_vjp_tuple"} ->
            [shape |-> <<n + 2>>, flat |-> Vec(n, LAMBDA i : J(1, i)) \o CVec]
       [] op \in {"grad", "value_and_grad", "grad_and_aux", "grad_named", "multigrad_dict", "holomorphic_grad"} ->
            [shape |-> ins, flat |-> Vec(n, LAMBDA i : J(1, i))]
       [] op = "elementwise_grad" -> [shape |-> ins, flat |-> Vec(n, LAMBDA i : SumTo(m, LAMBDA k : J(k, i)))]
       [] op = "hessian" -> [shape |-> ins \o ins, flat |-> Mat(n, n, LAMBDA i, j : Hes(1, i, j, scale))]
       [] op \in {"hessian_vector_product", "hessian_tensor_product", "make_hvp"} ->
            [shape |-> ins, flat |-> Vec(n, LAMBDA i : SumTo(n, LAMBDA j : Hes(1, i, j, scale) * V(j)))]
       [] op \in {"tensor_jacobian_product", "vector_jacobian_product", "make_vjp"} ->
            [shape |-> ins, flat |-> Vec(n, LAMBDA i : SumTo(m, LAMBDA k : V(k) * J(k, i)))]
       [] op = "make_ggnvp" ->      \* J^T (J v) with the default g(y) = 0.5 * sum(y**2)
            [shape |-> ins, flat |-> Vec(n, LAMBDA i : SumTo(m, LAMBDA k : J(k, i) * SumTo(n, LAMBDA j : J(k, j) * V(j))))]
       [] op \in {"make_jvp", "make_jvp_reversemode"} -> [shape |-> outs, flat |-> Vec(m, LAMBDA k : SumTo(n, LAMBDA i : J(k, i) * V(i)))]
       [] op = "deriv" -> [shape |-> outs, flat |-> Vec(m, LAMBDA k : SumTo(n, LAMBDA i : J(k, i)))]
       [] op = "jacobian_of_jacobian" -> [shape |-> outs \o ins \o ins,
                                          flat |-> [q \in 1..(m * n * n) |-> Hes(((q - 1) \div (n * n)) + 1, (((q - 1) \div n) % n) + 1, ((q - 1) % n) + 1, scale)]]

\* identities between operators (checked on the model)
IdGradIsJacobian(ins, sc) == Expected("grad", ins, <<>>, sc).flat = Expected("jacobian", ins, <<>>, sc).flat
IdHessianSymmetric(ins, sc) == LET n == Size(ins) h == Expected("hessian", ins, <<>>, sc).flat IN
                               \A i, j \in 1..n : h[(i - 1) * n + j] = h[(j - 1) * n + i]
IdEgradIsColumnSum(ins, outs, sc) == LET n == Size(ins) m == Size(outs) jj == Expected("jacobian", ins, outs, sc).flat IN
                                     Expected("elementwise_grad", ins, outs, sc).flat = Vec(n, LAMBDA i : SumTo(m, LAMBDA k : jj[(k - 1) * n + i]))
IdHessianIsJacOfGrad(ins, sc) == Expected("hessian", ins, <<>>, sc).flat = Expected("jacobian_of_jacobian", ins, <<>>, sc).flat

InShapes == {<<>>, <<2>>, <<3>>, <<1, 2>>, <<2, 2>>, <<2, 1, 2>>}
OutShapes == {<<>>, <<2>>, <<1>>, <<2, 1>>, <<1, 1>>, <<1, 2, 2>>}
\* how the differentiated argument is selected and what else is passed:
\*   pos = position of x among npos positional arguments; kw = a keyword argument is passed too; argform = "int" | "kwname"
\*   neg = the differentiated argument is selected by a NEGATIVE argnum (pos - npos), as Python sequences allow
Layouts == {[npos |-> np, pos |-> p, kw |-> k, neg |-> ng] : np \in 1..3, p \in 0..2, k \in BOOLEAN, ng \in BOOLEAN}
ValidLayout(l) == l.pos < l.npos
\* operators whose call takes exactly the function's own arguments (a negative argnum then means the same position everywhere)
NegOps == {"jacobian", "grad", "elementwise_grad", "hessian", "make_vjp", "make_jvp", "value_and_grad", "deriv", "jacobian_of_jacobian",
           "grad_and_aux", "holomorphic_grad", "make_jvp_reversemode", "make_hvp"}
=============================================================================
