SPECIFICATION Spec
INVARIANT Inv
