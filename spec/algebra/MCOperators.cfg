CONSTANTS Export = FALSE
SPECIFICATION Spec
INVARIANT Identities
