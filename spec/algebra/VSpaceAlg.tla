------------------------------ MODULE VSpaceAlg ------------------------------
(* The vector spaces autograd associates with differentiable values (core.VSpace, numpy_vspaces, builtins.ContainerVSpace).

   A SPACE is a structure tree:
     leaf       [k |-> "arr", shape |-> <<..>>, dt |-> dtype tag]         dt in DTypes; "py*" / "np*scalar" tags only with shape <<>>
     sequence   [k |-> "tuple" | "list", items |-> <<space, ...>>]
     dict       [k |-> "dict", keys |-> <<"a", ..>>, items |-> <<space, ...>>]
   A VECTOR of a space is the flat sequence of its scalar slots (row-major, children in order, dict children in key order);
   every entry is a Gaussian integer <<re, im>> (im = 0 in real slots).  All vector-space operations are defined on flat
   vectors; the structure determines the slots, the real dimension (`size`) and when two spaces are equal.

   The axioms of the property (C13) are stated below over a chosen space, vectors x, y, z and real scalars a, b. *)
EXTENDS Integers, Sequences, FiniteSets, TLC

ComplexDT == {"complex128", "complex64", "pycomplex"}
RealDT == {"float64", "float32", "float16", "longdouble", "pyfloat", "npfloat64scalar"}
IsComplexDT(dt) == dt \in ComplexDT

SizeOfShape(s) == LET F[i \in 0..Len(s)] == IF i = 0 THEN 1 ELSE F[i-1] * s[i] IN F[Len(s)]

\* flat sequence of slot kinds (TRUE = complex slot)
RECURSIVE Slots(_)
Slots(sp) ==
  IF sp.k = "arr" THEN [i \in 1..SizeOfShape(sp.shape) |-> IsComplexDT(sp.dt)]
  ELSE LET F[i \in 0..Len(sp.items)] == IF i = 0 THEN <<>> ELSE F[i-1] \o Slots(sp.items[i]) IN F[Len(sp.items)]

NSlots(sp) == Len(Slots(sp))
\* real dimension: a complex slot counts twice  (ComplexArrayVSpace.size = 2n)
RDim(sp) == LET s == Slots(sp) F[i \in 0..Len(s)] == IF i = 0 THEN 0 ELSE F[i-1] + (IF s[i] THEN 2 ELSE 1) IN F[Len(s)]

\* ---- operations on flat vectors (sequences of <<re, im>>)
Zeros(sp) == [i \in 1..NSlots(sp) |-> <<0, 0>>]
Ones(sp) == LET s == Slots(sp) IN [i \in 1..Len(s) |-> IF s[i] THEN <<1, 1>> ELSE <<1, 0>>]        \* complex ones = 1+1j
Add(x, y) == [i \in DOMAIN x |-> <<x[i][1] + y[i][1], x[i][2] + y[i][2]>>]
SMul(x, a) == [i \in DOMAIN x |-> <<a * x[i][1], a * x[i][2]>>]
Cov(x) == [i \in DOMAIN x |-> <<x[i][1], 0 - x[i][2]>>]                                             \* conjugating covector
Inner(x, y) == LET F[i \in 0..Len(x)] == IF i = 0 THEN 0 ELSE F[i-1] + x[i][1] * y[i][1] + x[i][2] * y[i][2] IN F[Len(x)]
\* standard basis: one vector per real degree of freedom (e_k, and i e_k in complex slots), in slot order
Basis(sp) ==
  LET s == Slots(sp)
      unit(i, im) == [j \in 1..Len(s) |-> IF j = i THEN (IF im THEN <<0, 1>> ELSE <<1, 0>>) ELSE <<0, 0>>]
      F[i \in 0..Len(s)] == IF i = 0 THEN <<>>
                            ELSE IF s[i] THEN F[i-1] \o <<unit(i, FALSE), unit(i, TRUE)>> ELSE Append(F[i-1], unit(i, FALSE))
  IN F[Len(s)]
\* membership of a flat vector in a space: imaginary parts only in complex slots
InSpace(x, sp) == Len(x) = NSlots(sp) /\ \A i \in DOMAIN x : (~Slots(sp)[i]) => x[i][2] = 0

\* ---- the axioms
AxZero(sp, x) == Add(Zeros(sp), x) = x /\ Add(x, Zeros(sp)) = x
AxCommute(x, y) == Add(x, y) = Add(y, x)
AxAssoc(x, y, z) == Add(Add(x, y), z) = Add(x, Add(y, z))
AxDistrib(x, y, a, b) == SMul(Add(x, y), a) = Add(SMul(x, a), SMul(y, a)) /\ SMul(x, a + b) = Add(SMul(x, a), SMul(x, b))
AxInnerSym(x, y) == Inner(x, y) = Inner(y, x)
AxInnerBilinear(x, y, z, a, b) == Inner(Add(SMul(x, a), SMul(y, b)), z) = a * Inner(x, z) + b * Inner(y, z)
AxInnerPosDef(sp, x) == Inner(x, x) >= 0 /\ (Inner(x, x) = 0 <=> x = Zeros(sp))
AxCovInvolution(x) == Cov(Cov(x)) = x
AxBasis(sp, x) ==
  LET B == Basis(sp) IN
  /\ Len(B) = RDim(sp)
  /\ \A i, j \in DOMAIN B : Inner(B[i], B[j]) = (IF i = j THEN 1 ELSE 0)
  /\ LET F[i \in 0..Len(B)] == IF i = 0 THEN Zeros(sp) ELSE Add(F[i-1], SMul(B[i], Inner(x, B[i]))) IN F[Len(B)] = x   \* complete
AllAxioms(sp, x, y, z, a, b) ==
  /\ AxZero(sp, x) /\ AxCommute(x, y) /\ AxAssoc(x, y, z) /\ AxDistrib(x, y, a, b)
  /\ AxInnerSym(x, y) /\ AxInnerBilinear(x, y, z, a, b) /\ AxInnerPosDef(sp, x) /\ AxCovInvolution(x) /\ AxBasis(sp, x)

\* ---- the space family
\* (<<2, 3>>: a genuinely two-dimensional leaf, so that the memory layout of a vector - C order, Fortran order, a transposed view - is
\*  something the replay can vary; the algebra itself never mentions layout)
LeafShapes == {<<>>, <<2>>, <<0>>, <<1, 2>>, <<2, 3>>}
ArrDT == {"float64", "float32", "float16", "longdouble", "complex128", "complex64"}
ScalarDT == {"pyfloat", "pycomplex", "npfloat64scalar"}
Leaves == {[k |-> "arr", shape |-> s, dt |-> d] : s \in LeafShapes, d \in ArrDT} \cup {[k |-> "arr", shape |-> <<>>, dt |-> d] : d \in ScalarDT}
SmallLeaves == {[k |-> "arr", shape |-> s, dt |-> d] : s \in {<<>>, <<2>>}, d \in {"float64", "complex128"}} \cup {[k |-> "arr", shape |-> <<>>, dt |-> "pyfloat"]}
Conts(children) ==
  {[k |-> kind, items |-> it] : kind \in {"tuple", "list"}, it \in {<<>>} \cup {<<c>> : c \in children} \cup {<<c, d>> : c \in children, d \in children}}
  \cup {[k |-> "dict", keys |-> ks, items |-> it] : ks \in {<<"a">>}, it \in {<<c>> : c \in children}}
  \cup {[k |-> "dict", keys |-> ks, items |-> it] : ks \in {<<"a", "b">>}, it \in {<<c, d>> : c \in children, d \in children}}
  \cup {[k |-> "dict", keys |-> <<>>, items |-> <<>>]}
Depth1 == Conts(SmallLeaves)
Depth2Sample == Conts({c \in Depth1 : Len(c.items) = 1 /\ c.items[1].shape = <<2>>} \cup {[k |-> "arr", shape |-> <<>>, dt |-> "float64"]})
Spaces(depth) == Leaves \cup (IF depth >= 1 THEN Depth1 ELSE {}) \cup (IF depth >= 2 THEN Depth2Sample ELSE {})

\* vectors of a space: every assignment of entries from E to the slots (imaginary parts only in complex slots), for small
\* spaces; three fixed patterns otherwise
Entries == {-1, 0, 2}
VecsAll(sp) == {x \in [1..NSlots(sp) -> Entries \X {0, 1}] : InSpace(x, sp)}
Pattern(sp, p) == LET s == Slots(sp) IN
  [i \in 1..Len(s) |-> << ((i * (p + 1) + p) % 5) - 2, IF s[i] THEN ((i + 2 * p) % 3) - 1 ELSE 0 >>]
Vecs(sp) == IF NSlots(sp) <= 1 THEN VecsAll(sp) ELSE {Pattern(sp, p) : p \in 0..3} \cup {Zeros(sp)}
=============================================================================
